/-
  Closed form of the message parser without storage header: what `dlt_standard_header`,
  `dlt_extended_header` and `dlt_message_intern` answer is determined by the Spec's framing
  (HTYP and LEN alone), for every byte string.
-/
import DltVerif.Model.Decode
import DltVerif.Spec.Layout
import DltVerif.Spec.WF
import DltVerif.Lemmas.Basic

namespace Dlt

private theorem hi_and_low (v : BitVec 8) : ((v &&& 0b111#8) <<< 5) &&& 0x1F#8 = 0#8 := by
  revert v; decide

private theorem calcAll_low (x : BitVec 8) :
    calculateAllHeadersLength x = calculateAllHeadersLength (x &&& 0x1F#8) := by
  revert x; decide

/-- the header lengths computed from a re-assembled header-type byte -/
private theorem calcAll_standardHeaderType (a c d f : Bool) (e : Endian) (v : BitVec 8) :
    calculateAllHeadersLength (standardHeaderType a e c d f v)
      = HEADER_MIN_LENGTH + (if c then 4 else 0) + (if d then 4 else 0) + (if f then 4 else 0)
        + (if a then EXTENDED_HEADER_LENGTH else 0) := by
  rw [calcAll_low]
  unfold standardHeaderType
  simp only []
  rw [BitVec.and_or_distrib_right, hi_and_low, BitVec.or_zero]
  cases a <;> cases c <;> cases d <;> cases f <;> cases e <;> decide

private theorem zts_short_some (n : Nat) (s : Bytes) (h : s.length < n) :
    ∃ k, zts n s = .incomplete (some k) ∧ 1 ≤ k ∧ k ≤ n - s.length := by
  unfold zts takeWhileNotNul
  cases hf : firstIdx isNul s with
  | none =>
    have h1 : ¬ s.length ≥ n := by omega
    refine ⟨1, ?_, ?_⟩
    · simp [h1, needed]
    · omega
  | some idx =>
    have hlt := firstIdx_lt _ _ _ hf
    have hi : idx ≤ n := by omega
    refine ⟨n - s.length, ?_, ?_⟩
    · simp only [hi, if_true, PRes.andThen_ok, List.length_take]
      have h1 : min idx s.length = idx := by omega
      rw [h1]
      have h2 : ¬ n < idx := by omega
      simp only [h2, if_false, take, List.length_drop]
      have h3 : s.length - idx < n - idx := by omega
      simp only [h3, if_true, PRes.andThen_incomplete, needed]
      have h4 : n - idx - (s.length - idx) = n - s.length := by omega
      have h5 : n - s.length ≠ 0 := by omega
      simp [h4, h5]
    · omega

/-- a parser that consumes exactly `n` bytes, or asks for at most what is missing of them -/
private def Reads {α : Type} (n : Nat) (p : Bytes → PRes α) : Prop :=
  ∀ i : Bytes,
    (n ≤ i.length ∧ ∃ v, p i = .ok v (i.drop n)) ∨
    (i.length < n ∧ ∃ k, p i = .incomplete (some k) ∧ 1 ≤ k ∧ k ≤ n - i.length)

private theorem zts_reads (n : Nat) : Reads n (zts n) := by
  intro i
  by_cases hn : n ≤ i.length
  · left; exact ⟨hn, _, zts_ok n i hn⟩
  · right; exact ⟨by omega, zts_short_some n i (by omega)⟩

private theorem uintN_reads (e : Endian) (k : Nat) : Reads k (uintN e k) := by
  intro i
  rcases uintN_total e k i with ⟨v, r, h⟩ | ⟨h1, h2⟩
  · left
    obtain ⟨hk, hr, _, _⟩ := uintN_ok_inv h
    subst hr
    exact ⟨hk, v, h⟩
  · right
    exact ⟨h1, _, h2, by omega, Nat.le_refl _⟩

private theorem bitsN_reads (e : Endian) (k : Nat) : Reads k (bitsN e k) := by
  intro i
  rcases bitsN_total e k i with ⟨v, r, h⟩ | ⟨h1, h2⟩
  · left
    obtain ⟨hk, hr, _⟩ := bitsN_ok_inv h
    subst hr
    exact ⟨hk, v, h⟩
  · right
    exact ⟨h1, _, h2, by omega, Nat.le_refl _⟩

private theorem beU8_reads : Reads 1 beU8 := by
  intro i
  cases i with
  | nil => right; exact ⟨by simp, 1, by simp [beU8, needed], by omega, by simp⟩
  | cons b t => left; exact ⟨by simp, b, by simp [beU8]⟩

/-- an optional 4-byte field guarded by a flag -/
private theorem opt_reads {α : Type} {p : Bytes → PRes α} (hp : Reads 4 p) (b : Bool) (i : Bytes) :
    ((if b then 4 else 0) ≤ i.length ∧
      ∃ v, (if b then (p i).map some else .ok none i) = .ok v (i.drop (if b then 4 else 0))
        ∧ v.isSome = b ∧ ∀ x, v = some x → ∃ r, p i = .ok x r) ∨
    (i.length < (if b then 4 else 0) ∧
      ∃ k, (if b then (p i).map some else .ok none i) = .incomplete (some k)
        ∧ 1 ≤ k ∧ k ≤ (if b then 4 else 0) - i.length) := by
  cases b with
  | false =>
    left
    refine ⟨by simp, none, by simp, rfl, ?_⟩
    intro x hx; cases hx
  | true =>
    simp only [if_true]
    rcases hp i with ⟨h1, v, hv⟩ | ⟨h1, k, hk, hk1, hk2⟩
    · left
      refine ⟨h1, some v, by rw [hv]; rfl, rfl, ?_⟩
      intro x hx
      cases hx
      exact ⟨_, hv⟩
    · right
      exact ⟨h1, k, by rw [hk]; rfl, hk1, hk2⟩


theorem stdHeaderLen_eq (b : BitVec 8) : calculateStandardHeaderLength b = Spec.stdHeaderLen b := by
  revert b; decide

theorem allHeadersLen_eq (b : BitVec 8) : calculateAllHeadersLength b = Spec.allHeadersLen b := by
  revert b; decide

private theorem flag_ecu (b : BitVec 8) : (b &&& WITH_ECU_ID_FLAG != 0#8) = Spec.bit b 2 := by
  revert b; decide
private theorem flag_sid (b : BitVec 8) : (b &&& WITH_SESSION_ID_FLAG != 0#8) = Spec.bit b 3 := by
  revert b; decide
private theorem flag_ts (b : BitVec 8) : (b &&& WITH_TIMESTAMP_FLAG != 0#8) = Spec.bit b 4 := by
  revert b; decide
private theorem flag_ext (b : BitVec 8) : (b &&& WITH_EXTENDED_HEADER_FLAG != 0#8) = Spec.bit b 0 := by
  revert b; decide
private theorem version_lt (b : BitVec 8) : ((b >>> 5) &&& 0b111#8).toNat < 8 := by
  revert b; decide
private theorem ofMsin_canonical (b : BitVec 8) : (MessageType.ofMsin b).canonical = true := by
  revert b; decide

private theorem uintN_big2 (hi lo : BitVec 8) (rest : Bytes) :
    uintN .big 2 (hi :: lo :: rest) = .ok (256 * hi.toNat + lo.toNat) rest := by
  have h : ¬ (hi :: lo :: rest).length < 2 := by simp only [List.length_cons]; omega
  simp only [uintN, h, if_false, Endian.value, fromBE, fromLE, List.take_succ_cons, List.take_zero,
    List.drop_succ_cons, List.drop_zero, List.reverse_cons, List.reverse_nil, List.nil_append,
    List.cons_append, Nat.mul_zero, Nat.add_zero]
  rw [Nat.add_comm]

private theorem declaredLen_lt (bs : Bytes) : Spec.declaredLen bs < 65536 := by
  unfold Spec.declaredLen
  split
  · rename_i hi lo _
    have := hi.isLt
    have := lo.isLt
    omega
  · omega

private theorem idOk_of_zts {n : Nat} {i v r : Bytes} (hn : n ≤ 4) (h : zts n i = .ok v r) : idOk v = true := by
  obtain ⟨h1, h2, h3⟩ := zts_ok_value h
  simp only [idOk, h1, h2, Bool.and_true, decide_eq_true_eq]
  omega

/-- the record `dlt_standard_header` builds once all fields are read -/
private theorem stdHeader_record (htyp mcnt : BitVec 8) (overall : Nat) (e : Option Bytes)
    (s t : Option (BitVec (8 * 4))) (ho : overall < 65536)
    (hle : Spec.allHeadersLen htyp ≤ overall)
    (he : e.isSome = Spec.bit htyp 2) (hs : s.isSome = Spec.bit htyp 3)
    (ht : t.isSome = Spec.bit htyp 4) :
    let h : StandardHeader :=
      { version := (htyp >>> 5) &&& 0b111#8
        endianness := if htyp &&& BIG_ENDIAN_FLAG != 0#8 then .big else .little
        messageCounter := mcnt
        hasExtendedHeader := htyp &&& WITH_EXTENDED_HEADER_FLAG != 0#8
        payloadLength := BitVec.ofNat 16 (overall - calculateAllHeadersLength htyp)
        ecuId := e
        sessionId := s
        timestamp := t }
    h.overallLengthNat = overall
      ∧ h.hasExtendedHeader = Spec.bit htyp 0
      ∧ calculateAllHeadersLength h.headerTypeByte = Spec.allHeadersLen htyp
      ∧ h.version.toNat < 8 := by
  intro h
  have hall : calculateAllHeadersLength h.headerTypeByte = Spec.allHeadersLen htyp := by
    simp only [StandardHeader.headerTypeByte, calcAll_standardHeaderType, h, he, hs, ht, flag_ext,
      Spec.allHeadersLen, Spec.stdHeaderLen, HEADER_MIN_LENGTH, EXTENDED_HEADER_LENGTH]
  refine ⟨?_, flag_ext htyp, hall, version_lt htyp⟩
  have hsum : h.overallLengthNat
      = calculateAllHeadersLength h.headerTypeByte + h.payloadLength.toNat := by
    simp only [StandardHeader.overallLengthNat, StandardHeader.headerTypeByte,
      calcAll_standardHeaderType]
  rw [hsum, hall]
  simp only [h, allHeadersLen_eq, BitVec.toNat_ofNat]
  omega


private theorem stdHeaderLen_ge (b : BitVec 8) : 4 ≤ Spec.stdHeaderLen b := by
  unfold Spec.stdHeaderLen; omega

private theorem drop_four_add (a b c d : BitVec 8) (rest : Bytes) (n : Nat) :
    (a :: b :: c :: d :: rest).drop (4 + n) = rest.drop n := by
  rw [Nat.add_comm]; rfl

/-- closed form of `dlt_standard_header` -/
theorem dltStandardHeader_closed (i : Bytes) :
    match i with
    | [] => dltStandardHeader i = .incomplete (some 1)
    | htyp :: _ =>
      if i.length < Spec.stdHeaderLen htyp then
        ∃ n, dltStandardHeader i = .incomplete (some n) ∧ 1 ≤ n ∧ n ≤ Spec.stdHeaderLen htyp - i.length
      else if Spec.declaredLen i < Spec.allHeadersLen htyp then dltStandardHeader i = .error
      else
        ∃ h, dltStandardHeader i = .ok h (i.drop (Spec.stdHeaderLen htyp))
          ∧ h.overallLengthNat = Spec.declaredLen i
          ∧ h.hasExtendedHeader = Spec.bit htyp 0
          ∧ calculateAllHeadersLength h.headerTypeByte = Spec.allHeadersLen htyp
          ∧ h.version.toNat < 8
          ∧ (∀ id, h.ecuId = some id → idOk id = true) := by
  cases i with
  | nil => simp [dltStandardHeader, beU8, needed]
  | cons htyp t =>
    have h4 := stdHeaderLen_ge htyp
    simp only []
    cases t with
    | nil =>
      rw [if_pos (by simp only [List.length_cons, List.length_nil]; omega)]
      refine ⟨1, by simp [dltStandardHeader, beU8, needed], by omega, ?_⟩
      simp only [List.length_cons, List.length_nil]; omega
    | cons mcnt t =>
      cases t with
      | nil =>
        rw [if_pos (by simp only [List.length_cons, List.length_nil]; omega)]
        refine ⟨2, by simp [dltStandardHeader, beU8, uintN, needed], by omega, ?_⟩
        simp only [List.length_cons, List.length_nil]; omega
      | cons hi t =>
        cases t with
        | nil =>
          rw [if_pos (by simp only [List.length_cons, List.length_nil]; omega)]
          refine ⟨1, by simp [dltStandardHeader, beU8, uintN, needed], by omega, ?_⟩
          simp only [List.length_cons, List.length_nil]; omega
        | cons lo rest =>
          have hd : Spec.declaredLen (htyp :: mcnt :: hi :: lo :: rest)
              = 256 * hi.toNat + lo.toNat := rfl
          have hdl := declaredLen_lt (htyp :: mcnt :: hi :: lo :: rest)
          have hlen : (htyp :: mcnt :: hi :: lo :: rest).length = rest.length + 4 := by
            simp only [List.length_cons]
          have hstd : Spec.stdHeaderLen htyp
              = 4 + (if Spec.bit htyp 2 then 4 else 0) + (if Spec.bit htyp 3 then 4 else 0)
                  + (if Spec.bit htyp 4 then 4 else 0) := rfl
          rw [hd] at hdl
          rw [hd, hlen]
          simp only [dltStandardHeader, beU8, PRes.andThen_ok, uintN_big2, flag_ecu, flag_sid,
            flag_ts]
          rcases opt_reads (zts_reads 4) (Spec.bit htyp 2) rest with
            ⟨l1, e, he, hes, hep⟩ | ⟨l1, k, hk, hk1, hk2⟩
          · rw [he, PRes.andThen_ok]
            rcases opt_reads (bitsN_reads .big 4) (Spec.bit htyp 3) (rest.drop (if Spec.bit htyp 2 then 4 else 0)) with
              ⟨l2, s, hs, hss, _⟩ | ⟨l2, k, hk, hk1, hk2⟩
            · rw [hs, PRes.andThen_ok]
              rcases opt_reads (bitsN_reads .big 4) (Spec.bit htyp 4)
                  ((rest.drop (if Spec.bit htyp 2 then 4 else 0)).drop (if Spec.bit htyp 3 then 4 else 0)) with
                ⟨l3, t, ht, hts, _⟩ | ⟨l3, k, hk, hk1, hk2⟩
              · rw [ht, PRes.andThen_ok]
                simp only [List.length_drop] at l2 l3
                rw [if_neg (by omega)]
                have hall := allHeadersLen_eq htyp
                by_cases hlt : 256 * hi.toNat + lo.toNat < Spec.allHeadersLen htyp
                · rw [if_pos hlt, if_pos (by omega)]
                · rw [if_neg hlt, if_neg (by omega)]
                  obtain ⟨p1, p2, p3, p4⟩ := stdHeader_record htyp mcnt (256 * hi.toNat + lo.toNat)
                    e s t hdl (by omega) hes hss hts
                  refine ⟨_, ?_, p1, p2, p3, p4, ?_⟩
                  · congr 1
                    rw [List.drop_drop, List.drop_drop, hstd, Nat.add_assoc, Nat.add_assoc,
                      drop_four_add]
                  · intro id hid
                    obtain ⟨r, hr⟩ := hep id hid
                    exact idOk_of_zts (Nat.le_refl 4) hr
              · rw [hk, PRes.andThen_incomplete]
                simp only [List.length_drop] at l2 l3 hk2
                rw [if_pos (by omega)]
                exact ⟨k, rfl, hk1, by omega⟩
            · rw [hk, PRes.andThen_incomplete]
              simp only [List.length_drop] at l2 hk2
              rw [if_pos (by omega)]
              exact ⟨k, rfl, hk1, by omega⟩
          · rw [hk, PRes.andThen_incomplete]
            rw [if_pos (by omega)]
            exact ⟨k, rfl, hk1, by omega⟩


/-- closed form of `dlt_extended_header`: it needs exactly 10 bytes and never fails -/
theorem dltExtendedHeader_closed (i : Bytes) :
    if i.length < 10 then
      ∃ n, dltExtendedHeader i = .incomplete (some n) ∧ 1 ≤ n ∧ n ≤ 10 - i.length
    else ∃ eh, dltExtendedHeader i = .ok eh (i.drop 10) ∧ eh.wf = true := by
  unfold dltExtendedHeader
  rcases beU8_reads i with ⟨l1, msin, h1⟩ | ⟨l1, k, hk, hk1, hk2⟩
  · rw [h1, PRes.andThen_ok]
    rcases beU8_reads (i.drop 1) with ⟨l2, argc, h2⟩ | ⟨l2, k, hk, hk1, hk2⟩
    · rw [h2, PRes.andThen_ok]
      rcases zts_reads 4 ((i.drop 1).drop 1) with ⟨l3, app, h3⟩ | ⟨l3, k, hk, hk1, hk2⟩
      · rw [h3, PRes.andThen_ok]
        rcases zts_reads 4 (((i.drop 1).drop 1).drop 4) with ⟨l4, ctx, h4⟩ | ⟨l4, k, hk, hk1, hk2⟩
        · rw [h4, PRes.andThen_ok]
          simp only [List.length_drop] at l2 l3 l4
          rw [if_neg (by omega)]
          have hdrop : (((i.drop 1).drop 1).drop 4).drop 4 = i.drop 10 := by
            simp only [List.drop_drop]
          rw [hdrop]
          refine ⟨_, rfl, ?_⟩
          · simp only [ExtendedHeader.wf, idOk_of_zts (Nat.le_refl 4) h3,
              idOk_of_zts (Nat.le_refl 4) h4, ofMsin_canonical, Bool.and_self]
        · rw [hk, PRes.andThen_incomplete]
          simp only [List.length_drop] at l2 l3 l4 hk2
          rw [if_pos (by omega)]
          exact ⟨k, rfl, hk1, by omega⟩
      · rw [hk, PRes.andThen_incomplete]
        simp only [List.length_drop] at l2 l3 hk2
        rw [if_pos (by omega)]
        exact ⟨k, rfl, hk1, by omega⟩
    · rw [hk, PRes.andThen_incomplete]
      simp only [List.length_drop] at l2 hk2
      rw [if_pos (by omega)]
      exact ⟨k, rfl, hk1, by omega⟩
  · rw [hk, PRes.andThen_incomplete]
    rw [if_pos (by omega)]
    exact ⟨k, rfl, hk1, by omega⟩

/-- the outcome is not a panic -/
private def PRes.NoPanic {α : Type} (r : PRes α) : Prop := r ≠ .panic

private theorem PRes.noPanic_ok {α : Type} (v : α) (r : Bytes) : (PRes.ok v r).NoPanic := by
  intro h; cases h
private theorem PRes.noPanic_incomplete {α : Type} (n : Option Nat) : (PRes.incomplete n : PRes α).NoPanic := by
  intro h; cases h
private theorem PRes.noPanic_error {α : Type} : (PRes.error : PRes α).NoPanic := by
  intro h; cases h
private theorem PRes.noPanic_failure {α : Type} : (PRes.failure : PRes α).NoPanic := by
  intro h; cases h

private theorem andThen_noPanic {α β : Type} {r : PRes α} {f : α → Bytes → PRes β} (hr : r.NoPanic)
    (hf : ∀ v rest, (f v rest).NoPanic) : (r.andThen f).NoPanic := by
  cases r with
  | ok v rest => exact hf v rest
  | incomplete n => exact PRes.noPanic_incomplete n
  | error => exact PRes.noPanic_error
  | failure => exact PRes.noPanic_failure
  | panic => exact absurd rfl hr

private theorem map_noPanic {α β : Type} {r : PRes α} (f : α → β) (hr : r.NoPanic) : (r.map f).NoPanic := by
  cases r with
  | ok v rest => exact PRes.noPanic_ok _ _
  | incomplete n => exact PRes.noPanic_incomplete n
  | error => exact PRes.noPanic_error
  | failure => exact PRes.noPanic_failure
  | panic => exact absurd rfl hr

private theorem zts_noPanic (n : Nat) (i : Bytes) : (zts n i).NoPanic := by
  rcases zts_total n i with ⟨_, v, h⟩ | ⟨_, hint, h, _⟩ <;> rw [h]
  · exact PRes.noPanic_ok _ _
  · exact PRes.noPanic_incomplete _

private theorem uintN_noPanic (e : Endian) (k : Nat) (i : Bytes) : (uintN e k i).NoPanic := by
  rcases uintN_total e k i with ⟨v, r, h⟩ | ⟨_, h⟩ <;> rw [h]
  · exact PRes.noPanic_ok _ _
  · exact PRes.noPanic_incomplete _

private theorem bitsN_noPanic (e : Endian) (k : Nat) (i : Bytes) : (bitsN e k i).NoPanic :=
  map_noPanic _ (uintN_noPanic e k i)

private theorem beU8_noPanic (i : Bytes) : (beU8 i).NoPanic := by
  rcases beU8_total i with ⟨v, r, h⟩ | ⟨_, h⟩ <;> rw [h]
  · exact PRes.noPanic_ok _ _
  · exact PRes.noPanic_incomplete _

private theorem beU8Complete_noPanic (i : Bytes) : (beU8Complete i).NoPanic := by
  cases i with
  | nil => exact PRes.noPanic_error
  | cons b t => exact PRes.noPanic_ok _ _

private theorem take_noPanic (n : Nat) (i : Bytes) : (take n i).NoPanic := by
  rcases take_total n i with ⟨_, h⟩ | ⟨_, h⟩ <;> rw [h]
  · exact PRes.noPanic_ok _ _
  · exact PRes.noPanic_incomplete _

private theorem dltVariableName_noPanic (e : Endian) (i : Bytes) : (dltVariableName e i).NoPanic :=
  andThen_noPanic (uintN_noPanic e 2 i) fun size r => zts_noPanic size r

private theorem optVariableName_noPanic (e : Endian) (b : Bool) (i : Bytes) :
    (if b then (dltVariableName e i).map some else .ok none i).NoPanic := by
  cases b with
  | false => exact PRes.noPanic_ok _ _
  | true => exact map_noPanic _ (dltVariableName_noPanic e i)

private theorem dltVariableNameAndUnit_noPanic (e : Endian) (ti : TypeInfo) (i : Bytes) :
    (dltVariableNameAndUnit e ti i).NoPanic := by
  unfold dltVariableNameAndUnit
  split
  · exact andThen_noPanic (uintN_noPanic _ _ _) fun _ _ =>
      andThen_noPanic (uintN_noPanic _ _ _) fun _ _ =>
      andThen_noPanic (zts_noPanic _ _) fun _ _ =>
      andThen_noPanic (zts_noPanic _ _) fun _ _ => PRes.noPanic_ok _ _
  · exact PRes.noPanic_ok _ _

private theorem dltUint_noPanic (e : Endian) (w : TypeLength) (i : Bytes) : (dltUint e w i).NoPanic := by
  cases w <;> first
    | exact map_noPanic _ (beU8_noPanic _)
    | exact map_noPanic _ (bitsN_noPanic _ _ _)

private theorem dltSint_noPanic (e : Endian) (w : TypeLength) (i : Bytes) : (dltSint e w i).NoPanic := by
  cases w <;> first
    | exact map_noPanic _ (beU8_noPanic _)
    | exact map_noPanic _ (bitsN_noPanic _ _ _)

private theorem dltFint_noPanic (e : Endian) (w : FloatWidth) (i : Bytes) : (dltFint e w i).NoPanic := by
  cases w <;> exact map_noPanic _ (bitsN_noPanic _ _ _)

private theorem dltTypeInfo_noPanic (e : Endian) (i : Bytes) : (dltTypeInfo e i).NoPanic := by
  refine andThen_noPanic (bitsN_noPanic _ _ _) fun info r => ?_
  show (match TypeInfo.ofU32 info with | some ti => PRes.ok ti r | none => PRes.error).NoPanic
  split
  · exact PRes.noPanic_ok _ _
  · exact PRes.noPanic_error

private theorem dltFixedPoint_noPanic (e : Endian) (w : FloatWidth) (i : Bytes) :
    (dltFixedPoint e w i).NoPanic := by
  refine andThen_noPanic (bitsN_noPanic _ _ _) fun q r => ?_
  cases w <;> exact map_noPanic _ (bitsN_noPanic _ _ _)

private theorem dltArgument_noPanic (e : Endian) (i : Bytes) : (dltArgument e i).NoPanic := by
  refine andThen_noPanic (dltTypeInfo_noPanic e i) fun ti r => ?_
  split
  · exact andThen_noPanic (dltVariableNameAndUnit_noPanic _ _ _) fun _ _ =>
      andThen_noPanic (dltSint_noPanic _ _ _) fun _ _ => PRes.noPanic_ok _ _
  · exact andThen_noPanic (dltVariableNameAndUnit_noPanic _ _ _) fun _ _ =>
      andThen_noPanic (dltFixedPoint_noPanic _ _ _) fun _ _ =>
      andThen_noPanic (dltSint_noPanic _ _ _) fun _ _ => PRes.noPanic_ok _ _
  · exact andThen_noPanic (dltVariableNameAndUnit_noPanic _ _ _) fun _ _ =>
      andThen_noPanic (dltUint_noPanic _ _ _) fun _ _ => PRes.noPanic_ok _ _
  · exact andThen_noPanic (dltVariableNameAndUnit_noPanic _ _ _) fun _ _ =>
      andThen_noPanic (dltFixedPoint_noPanic _ _ _) fun _ _ =>
      andThen_noPanic (dltUint_noPanic _ _ _) fun _ _ => PRes.noPanic_ok _ _
  · exact andThen_noPanic (dltVariableNameAndUnit_noPanic _ _ _) fun _ _ =>
      andThen_noPanic (dltFint_noPanic _ _ _) fun _ _ => PRes.noPanic_ok _ _
  · exact andThen_noPanic (uintN_noPanic _ _ _) fun _ _ =>
      andThen_noPanic (optVariableName_noPanic _ _ _) fun _ _ =>
      andThen_noPanic (take_noPanic _ _) fun _ _ => PRes.noPanic_ok _ _
  · exact andThen_noPanic (optVariableName_noPanic _ _ _) fun _ _ =>
      andThen_noPanic (beU8_noPanic _) fun _ _ => PRes.noPanic_ok _ _
  · exact andThen_noPanic (uintN_noPanic _ _ _) fun _ _ =>
      andThen_noPanic (optVariableName_noPanic _ _ _) fun _ _ =>
      andThen_noPanic (zts_noPanic _ _) fun _ _ => PRes.noPanic_ok _ _

/-- the argument parsers never take the panic outcome -/
theorem dltArgument_ne_panic (e : Endian) (i : Bytes) : dltArgument e i ≠ .panic :=
  dltArgument_noPanic e i

private theorem count_noPanic {α : Type} (f : Bytes → PRes α) (hf : ∀ i, (f i).NoPanic) (n : Nat)
    (i : Bytes) : (count f n i).NoPanic := by
  induction n generalizing i with
  | zero => exact PRes.noPanic_ok _ _
  | succ n ih =>
    exact andThen_noPanic (hf i) fun v r => map_noPanic _ (ih r)

private theorem addContext_noPanic {α : Type} {r : PRes α} (hr : r.NoPanic) : (addContext r).NoPanic := by
  cases r with
  | ok v rest => exact hr
  | incomplete n => exact hr
  | error => exact hr
  | failure => exact PRes.noPanic_error
  | panic => exact hr

theorem dltPayload_ne_panic (e : Endian) (i : Bytes) (verbose : Bool) (pl argc : Nat)
    (mt : Option MessageType) : dltPayload e i verbose pl argc mt ≠ .panic := by
  show (dltPayload e i verbose pl argc mt).NoPanic
  unfold dltPayload
  have hc := count_noPanic (dltArgument e) (dltArgument_noPanic e) argc i
  split
  · split
    · split <;> exact PRes.noPanic_ok _ _
    · exact addContext_noPanic (map_noPanic _ hc)
  · split
    · split
      · exact PRes.noPanic_failure
      · exact andThen_noPanic (beU8Complete_noPanic _) fun _ _ =>
          andThen_noPanic (take_noPanic _ _) fun _ _ => PRes.noPanic_ok _ _
    · split
      · exact PRes.noPanic_failure
      · exact andThen_noPanic (bitsN_noPanic _ _ _) fun _ _ =>
          andThen_noPanic (take_noPanic _ _) fun _ _ => PRes.noPanic_ok _ _


/-- `validated_payload_length` on a header whose total is the declared length -/
private theorem validatedPayloadLength_eq (h : StandardHeader) (rem D A : Nat)
    (hD : h.overallLengthNat = D) (hlt : D < 65536)
    (hA : calculateAllHeadersLength h.headerTypeByte = A) (hle : A ≤ D) :
    validatedPayloadLength h rem
      = some (if D > rem then .incomplete (some (D - rem)) else .ok (D - A)) := by
  have h1 : h.overallLengthPanics = false := by
    simp only [StandardHeader.overallLengthPanics, hD, decide_eq_false_iff_not]; omega
  have h2 : h.overallLength = D := by
    simp only [StandardHeader.overallLength, asU16, hD]; omega
  simp only [validatedPayloadLength, h1, h2, hA, Bool.false_eq_true, if_false]
  rw [if_neg (by omega)]
  by_cases hr : D > rem
  · have : D - rem ≠ 0 := by omega
    simp only [hr, if_true, needed, this, if_false]
  · simp only [hr, if_false]

/-- the optional extended header: 10 bytes when announced -/
private theorem optExtendedHeader_closed (b : Bool) (i : Bytes) :
    (i.length < (if b then 10 else 0) ∧
      ∃ k, (if b then (dltExtendedHeader i).map some else .ok none i) = .incomplete (some k)
        ∧ 1 ≤ k ∧ k ≤ (if b then 10 else 0) - i.length) ∨
    ((if b then 10 else 0) ≤ i.length ∧
      ∃ eho, (if b then (dltExtendedHeader i).map some else .ok none i)
        = .ok eho (i.drop (if b then 10 else 0))) := by
  cases b with
  | false => right; exact ⟨Nat.zero_le _, none, rfl⟩
  | true =>
    have h := dltExtendedHeader_closed i
    simp only [if_true]
    by_cases hl : i.length < 10
    · rw [if_pos hl] at h
      obtain ⟨n, hn, h1, h2⟩ := h
      left
      exact ⟨hl, n, by rw [hn]; rfl, h1, h2⟩
    · rw [if_neg hl] at h
      obtain ⟨eh, he, _⟩ := h
      right
      exact ⟨by omega, some eh, by rw [he]; rfl⟩

/-- the message parser (no storage header) answers what the Spec's framing says -/
theorem framing_refines (bs : Bytes) (f : Option ProcessedFilter) :
    match Spec.framing bs with
    | .incomplete b =>
      ∃ hint, dltMessageIntern bs f false = .incomplete hint ∧ ∀ n, hint = some n → 1 ≤ n ∧ n ≤ b
    | .reject => dltMessageIntern bs f false = .error
    | .complete d =>
      (∃ res, dltMessageIntern bs f false = .ok res (bs.drop d) ∧ res ≠ .invalid
          ∧ (∀ n, res = .filteredOut n → n = d - Spec.allHeadersLen (bs.headD 0#8))
          ∧ (∀ m, res = .item m → m.storageHeader = none))
      ∨ dltMessageIntern bs f false = .error
      ∨ dltMessageIntern bs f false = .failure := by
  have hstd := dltStandardHeader_closed bs
  unfold dltMessageIntern
  simp only [Bool.false_eq_true, if_false, PRes.andThen_ok]
  cases bs with
  | nil =>
    simp only [] at hstd
    rw [hstd]
    exact ⟨some 1, rfl, fun n hn => by cases hn; exact ⟨Nat.le_refl _, Nat.le_refl _⟩⟩
  | cons htyp t =>
    have hhead : (htyp :: t).headD 0#8 = htyp := rfl
    have hfr : Spec.framing (htyp :: t) =
        if (htyp :: t).length < Spec.stdHeaderLen htyp then
          .incomplete (Spec.stdHeaderLen htyp - (htyp :: t).length)
        else if Spec.declaredLen (htyp :: t) < Spec.allHeadersLen htyp then .reject
        else if (htyp :: t).length < Spec.allHeadersLen htyp then
          .incomplete (Spec.allHeadersLen htyp - (htyp :: t).length)
        else if (htyp :: t).length < Spec.declaredLen (htyp :: t) then
          .incomplete (Spec.declaredLen (htyp :: t) - (htyp :: t).length)
        else .complete (Spec.declaredLen (htyp :: t)) := rfl
    simp only [] at hstd
    rw [hhead]
    have hD := declaredLen_lt (htyp :: t)
    generalize htyp :: t = bs at *
    have hA : Spec.allHeadersLen htyp
        = Spec.stdHeaderLen htyp + (if Spec.bit htyp 0 then 10 else 0) := rfl
    by_cases c1 : bs.length < Spec.stdHeaderLen htyp
    · rw [if_pos c1] at hstd hfr
      obtain ⟨n, hn, h1, h2⟩ := hstd
      rw [hfr, hn]
      exact ⟨some n, rfl, fun m hm => by cases hm; exact ⟨h1, h2⟩⟩
    · rw [if_neg c1] at hstd hfr
      by_cases c2 : Spec.declaredLen bs < Spec.allHeadersLen htyp
      · rw [if_pos c2] at hstd hfr
        rw [hfr, hstd]
        rfl
      · rw [if_neg c2] at hstd hfr
        obtain ⟨h, hh, p1, p2, p3, _, _⟩ := hstd
        rw [hh, PRes.andThen_ok,
          validatedPayloadLength_eq h bs.length _ _ p1 hD p3 (by omega)]
        simp only []
        rw [p2]
        rcases optExtendedHeader_closed (Spec.bit htyp 0) (bs.drop (Spec.stdHeaderLen htyp)) with
          ⟨l1, k, hk, hk1, hk2⟩ | ⟨l1, eho, he⟩
        · rw [hk, PRes.andThen_incomplete]
          rw [List.length_drop] at l1 hk2
          rw [if_pos (by omega)] at hfr
          rw [hfr]
          exact ⟨some k, rfl, fun m hm => by cases hm; exact ⟨hk1, by omega⟩⟩
        · rw [he, PRes.andThen_ok]
          rw [List.length_drop] at l1
          rw [if_neg (by omega)] at hfr
          rw [List.drop_drop, ← hA] at *
          by_cases c3 : bs.length < Spec.declaredLen bs
          · rw [if_pos c3] at hfr
            rw [hfr, if_pos c3]
            exact ⟨_, rfl, fun m hm => by cases hm; omega⟩
          · rw [if_neg c3] at hfr
            rw [hfr, if_neg c3]
            simp only []
            have htake : take (Spec.declaredLen bs - Spec.allHeadersLen htyp)
                  (bs.drop (Spec.allHeadersLen htyp))
                = .ok ((bs.drop (Spec.allHeadersLen htyp)).take
                    (Spec.declaredLen bs - Spec.allHeadersLen htyp))
                  (bs.drop (Spec.declaredLen bs)) := by
              rcases take_total (Spec.declaredLen bs - Spec.allHeadersLen htyp)
                  (bs.drop (Spec.allHeadersLen htyp)) with ⟨_, ht⟩ | ⟨hl, _⟩
              · rw [ht, List.drop_drop]
                congr 2
                omega
              · rw [List.length_drop] at hl; omega
            rw [htake]
            split
            · left
              exact ⟨_, rfl, fun hc => (by cases hc), fun n hn => (by cases hn; rfl),
                fun m hm => (by cases hm)⟩
            · simp only [PRes.andThen_ok]
              split
              · left
                exact ⟨_, rfl, fun hc => (by cases hc), fun n hn => (by cases hn),
                  fun m hm => (by cases hm; rfl)⟩
              · right; left; rfl
              · right; left; rfl
              · right; right; rfl
              · rename_i heq
                exact absurd heq (dltPayload_ne_panic _ _ _ _ _ _)

private theorem overallLengthNat_eq (h : StandardHeader) :
    h.overallLengthNat = calculateAllHeadersLength h.headerTypeByte + h.payloadLength.toNat := by
  simp only [StandardHeader.overallLengthNat, StandardHeader.headerTypeByte,
    calcAll_standardHeaderType]

/-- an accepted payload length is the header's payload length field -/
private theorem validatedPayloadLength_ok_inv {h : StandardHeader} {rem pl : Nat}
    (hv : validatedPayloadLength h rem = some (.ok pl)) : pl = h.payloadLength.toNat := by
  unfold validatedPayloadLength at hv
  split at hv
  · cases hv
  · rename_i hp
    simp only [] at hv
    split at hv
    · cases hv
    · split at hv
      · cases hv
      · injection hv with hv
        injection hv with hv
        have hsum := overallLengthNat_eq h
        simp only [StandardHeader.overallLengthPanics, decide_eq_true_eq] at hp
        simp only [StandardHeader.overallLength, asU16] at hv
        omega

theorem dltMessageIntern_filtered (bs : Bytes) (cfg : ProcessedFilter) (w : Bool) (m : Message)
    (r : Bytes) (h : dltMessageIntern bs none w = .ok (.item m) r) :
    dltMessageIntern bs (some cfg) w =
      .ok (if filteredOut m.extendedHeader (some cfg) m.header.ecuId
           then .filteredOut m.header.payloadLength.toNat else .item m) r := by
  unfold dltMessageIntern at h ⊢
  generalize (if w = true then dltStorageHeader bs else PRes.ok none bs) = sh at h ⊢
  cases sh with
  | ok sho after =>
    simp only [PRes.andThen_ok] at h ⊢
    generalize dltStandardHeader after = sr at h ⊢
    cases sr with
    | ok header i2 =>
      simp only [PRes.andThen_ok] at h ⊢
      generalize hv : validatedPayloadLength header after.length = v at h ⊢
      cases v with
      | none => cases h
      | some plr =>
        simp only [] at h ⊢
        generalize (if header.hasExtendedHeader = true then PRes.map some (dltExtendedHeader i2)
          else PRes.ok none i2) = er at h ⊢
        cases er with
        | ok eho afterHeaders =>
          simp only [PRes.andThen_ok] at h ⊢
          cases plr with
          | incomplete n => cases h
          | hickup => simp only [] at h; cases h
          | ok pl =>
            simp only [] at h ⊢
            have hpl := validatedPayloadLength_ok_inv hv
            have hnone : filteredOut eho none header.ecuId = false := rfl
            rw [hnone] at h
            simp only [Bool.false_eq_true, if_false] at h
            generalize take pl afterHeaders = tr at h ⊢
            cases tr with
            | ok pb afterMessage =>
              simp only [PRes.andThen_ok] at h ⊢
              split at h
              · injection h with h1 h2
                injection h1 with h1
                subst h1 h2
                simp only []
                split
                · rw [hpl]
                · rfl
              · cases h
              · cases h
              · cases h
              · cases h
            | incomplete n => cases h
            | error => cases h
            | failure => cases h
            | panic => cases h
        | incomplete n => cases h
        | error => cases h
        | failure => cases h
        | panic => cases h
    | incomplete n => cases h
    | error => cases h
    | failure => cases h
    | panic => cases h
  | incomplete n => cases h
  | error => cases h
  | failure => cases h
  | panic => cases h

end Dlt
