/-
  C02, decoding: headers by offset and the whole-message verdict.
-/
import DltVerif.Lemmas.CodecDecode
import DltVerif.Lemmas.FramingStorage
import DltVerif.Lemmas.PropsAux

namespace Dlt
open Dlt.Spec

theorem flags_table : ∀ b : BitVec 8,
    (b &&& WITH_ECU_ID_FLAG != 0#8) = Spec.bit b 2
    ∧ (b &&& WITH_SESSION_ID_FLAG != 0#8) = Spec.bit b 3
    ∧ (b &&& WITH_TIMESTAMP_FLAG != 0#8) = Spec.bit b 4
    ∧ (b &&& WITH_EXTENDED_HEADER_FLAG != 0#8) = Spec.bit b 0
    ∧ (b &&& BIG_ENDIAN_FLAG != 0#8) = Spec.bit b 1
    ∧ (b >>> 5) &&& 0b111#8 = BitVec.ofNat 8 (b.toNat / 32) := by
  decide +kernel

theorem drop4 (a b c d : BitVec 8) (rest : Bytes) : List.drop 4 (a :: b :: c :: d :: rest) = rest := rfl

theorem drop4_add (a b c d : BitVec 8) (rest : Bytes) (n : Nat) :
    List.drop (4 + n) (a :: b :: c :: d :: rest) = rest.drop n := by
  rw [Nat.add_comm]; rfl

theorem bitsN_big4 (r : Bytes) (h : 4 ≤ r.length) :
    bitsN .big 4 r = .ok (BitVec.ofNat 32 (numBE (r.take 4))) (r.drop 4) := by
  have hl : ¬ r.length < 4 := by omega
  simp only [bitsN, uintN, hl, if_false, PRes.map_ok, Endian.value, numBE_eq_fromBE]

theorem zts4 (r : Bytes) (h : 4 ≤ r.length) : zts 4 r = .ok (fieldText (r.take 4)) (r.drop 4) := by
  rw [zts_ok 4 r h, fieldText_eq]

/-- with the standard header complete and a declared length that covers the headers, the
    parsed standard header is the one the Spec reads by offset -/
theorem dltStandardHeader_exact (htyp mcnt hi lo : BitVec 8) (rest : Bytes)
    (hl : Spec.stdHeaderLen htyp ≤ (htyp :: mcnt :: hi :: lo :: rest).length)
    (hd : Spec.allHeadersLen htyp ≤ Spec.declaredLen (htyp :: mcnt :: hi :: lo :: rest)) :
    dltStandardHeader (htyp :: mcnt :: hi :: lo :: rest)
      = .ok (stdHeaderOf (htyp :: mcnt :: hi :: lo :: rest))
          ((htyp :: mcnt :: hi :: lo :: rest).drop (Spec.stdHeaderLen htyp)) := by
  obtain ⟨f2, f3, f4, f0, f1, fv⟩ := flags_table htyp
  have hdl : Spec.declaredLen (htyp :: mcnt :: hi :: lo :: rest) = 256 * hi.toNat + lo.toNat := rfl
  have hu : uintN .big 2 (hi :: lo :: rest) = .ok (256 * hi.toNat + lo.toNat) rest := by
    simp only [uintN, Endian.value, fromBE, fromLE, List.length_cons, List.take, List.drop,
      List.reverse_cons, List.reverse_nil, List.nil_append, List.cons_append]
    have : ¬ rest.length + 1 + 1 < 2 := by omega
    simp only [this, if_false]
    congr 1
    omega
  unfold dltStandardHeader
  simp only [beU8, PRes.andThen_ok, hu, f2, f3, f4, f0, f1, fv, allHeadersLen_eq]
  rw [hdl] at hd
  have hnot : ¬ Spec.allHeadersLen htyp > 256 * hi.toNat + lo.toNat := by omega
  simp only [Spec.stdHeaderLen, List.length_cons] at hl
  unfold stdHeaderOf
  simp only [List.headD_cons, hdl, at4, List.getD_cons_succ, List.getD_cons_zero]
  by_cases b2 : Spec.bit htyp 2 <;> by_cases b3 : Spec.bit htyp 3 <;> by_cases b4 : Spec.bit htyp 4 <;>
    simp only [b2, b3, b4, if_true, if_false, Bool.false_eq_true, Nat.add_zero] at hl ⊢
  all_goals
    simp (disch := (first | omega | (simp only [List.length_drop]; omega))) only [zts4, bitsN_big4, PRes.map_ok,
      PRes.andThen_ok, hnot, if_false, Spec.stdHeaderLen, b2, b3, b4, if_true, Bool.false_eq_true,
      Nat.add_assoc, Nat.add_zero, drop4, drop4_add, List.drop_drop]
  all_goals rfl

theorem msin_table : ∀ b : BitVec 8,
    MessageType.ofMsin b = Spec.msinType b
    ∧ (b &&& VERBOSE_FLAG != 0#8) = decide (b.toNat % 2 = 1) := by
  decide +kernel

/-- the extended header read by offset -/
def extAt (i : Bytes) : ExtendedHeader :=
  { verbose := decide ((i.getD 0 0#8).toNat % 2 = 1)
    argumentCount := i.getD 1 0#8
    messageType := msinType (i.getD 0 0#8)
    applicationId := fieldText ((i.drop 2).take 4)
    contextId := fieldText ((i.drop 6).take 4) }

theorem dltExtendedHeader_exact (i : Bytes) (h : 10 ≤ i.length) :
    dltExtendedHeader i = .ok (extAt i) (i.drop 10) := by
  match i, h with
  | msin :: argc :: rest, h =>
    simp only [List.length_cons] at h
    obtain ⟨m1, m2⟩ := msin_table msin
    unfold dltExtendedHeader extAt
    simp (disch := (first | omega | (simp only [List.length_drop]; omega))) only [beU8,
      PRes.andThen_ok, zts4, m1, m2, List.getD_cons_zero, List.getD_cons_succ, List.drop_succ_cons,
      List.drop_zero, List.drop_drop]

/-- what `dlt_message_intern` does behind the headers -/
def tailOf (hdr : StandardHeader) (eo : Option ExtendedHeader) (vb : Bool) (argc : Nat)
    (mt : Option MessageType) (after : Bytes) (pl : Nat) : PRes ParsedMessage :=
  if filteredOut eo none hdr.ecuId then
    (take pl after).andThen fun _ afterMessage => .ok (.filteredOut pl) afterMessage
  else
    (take pl after).andThen fun payloadBytes afterMessage =>
      match dltPayload hdr.endianness payloadBytes vb pl argc mt with
      | .ok payload _ =>
        .ok (.item { storageHeader := none, header := hdr, extendedHeader := eo, payload := payload })
          afterMessage
      | .incomplete _ => .error
      | .error => .error
      | .failure => .failure
      | .panic => .panic

theorem tailOf_spec (hdr : StandardHeader) (eo : Option ExtendedHeader) (vb : Bool) (argc : Nat)
    (mt : Option MessageType) (after : Bytes) (pl : Nat) (hpl : pl ≤ after.length) :
    (∀ p, decodePayloadWith hdr.endianness vb argc mt (after.take pl) = some p →
        tailOf hdr eo vb argc mt after pl
          = .ok (.item { storageHeader := none, header := hdr, extendedHeader := eo, payload := p })
              (after.drop pl))
    ∧ (decodePayloadWith hdr.endianness vb argc mt (after.take pl) = none →
        tailOf hdr eo vb argc mt after pl = .error ∨ tailOf hdr eo vb argc mt after pl = .failure) := by
  have hl : (after.take pl).length = pl := by rw [List.length_take]; omega
  have htake : take pl after = .ok (after.take pl) (after.drop pl) := by
    unfold take; rw [if_neg (by omega)]
  have href := payload_refines hdr.endianness vb argc mt (after.take pl)
  rw [hl] at href
  have hnp := dltPayload_ne_panic hdr.endianness (after.take pl) vb pl argc mt
  unfold tailOf
  rw [filteredOut_none, htake, ← href]
  simp only [Bool.false_eq_true, if_false, PRes.andThen_ok]
  cases hr : dltPayload hdr.endianness (after.take pl) vb pl argc mt with
  | ok p r =>
    simp only [PRes.toOpt, Option.map_some]
    exact ⟨fun p' hp' => by cases hp'; rfl, fun h => by cases h⟩
  | incomplete n => exact ⟨(fun p' hp' => by cases hp'), fun _ => Or.inl rfl⟩
  | error => exact ⟨(fun p' hp' => by cases hp'), fun _ => Or.inl rfl⟩
  | failure => exact ⟨(fun p' hp' => by cases hp'), fun _ => Or.inr rfl⟩
  | panic => exact absurd hr hnp

/-- the message (no storage header) a complete buffer holds, failure classes collapsed -/
def bodyOf (bs : Bytes) (d : Nat) : Option Message :=
  let htyp := bs.headD 0#8
  let hd := stdHeaderOf bs
  let ext := if Spec.bit htyp 0 then some (extAt (bs.drop (Spec.stdHeaderLen htyp))) else none
  (decodePayload hd.endianness ext ((bs.drop (Spec.allHeadersLen htyp)).take (d - Spec.allHeadersLen htyp))).map
    fun p => { storageHeader := none, header := hd, extendedHeader := ext, payload := p }

open FramingStorage in
/-- with a complete message of `d` bytes in the buffer, the parser (no storage header, no
    filter) returns exactly the Spec's message and the bytes behind it, or refuses -/
theorem msgBody_complete (bs : Bytes) (d : Nat) (hf : Spec.framing bs = .complete d) :
    (∀ m, bodyOf bs d = some m → msgBody none bs none = .ok (.item m) (bs.drop d))
    ∧ (bodyOf bs d = none → msgBody none bs none = .error ∨ msgBody none bs none = .failure) := by
  obtain ⟨htyp, t, hbs, hstd, hall, hdlen, hdecl⟩ := (framing_complete_iff bs d).1 hf
  have h4 := stdHeaderLen_ge htyp
  have hsa := stdHeaderLen_le_all htyp
  -- the first four bytes exist
  obtain ⟨mcnt, hi, lo, rest, ht⟩ : ∃ mcnt hi lo rest, t = mcnt :: hi :: lo :: rest := by
    match t, hbs with
    | a :: b :: c :: r, _ => exact ⟨a, b, c, r, rfl⟩
    | [], hb => rw [hb] at hstd; simp at hstd; omega
    | [_], hb => rw [hb] at hstd; simp at hstd; omega
    | [_, _], hb => rw [hb] at hstd; simp at hstd; omega
  subst ht
  subst hbs
  have hexact := dltStandardHeader_exact htyp mcnt hi lo rest hstd (by rw [← hdecl]; exact hall)
  -- facts about the parsed header from the closed form
  have hclosed := dltStandardHeader_closed (htyp :: mcnt :: hi :: lo :: rest)
  simp only [] at hclosed
  rw [if_neg (by omega), if_neg (by rw [← hdecl]; omega)] at hclosed
  obtain ⟨h, hh, hov, hext, hcalc, hver, _⟩ := hclosed
  rw [hexact] at hh
  injection hh with hh1 _
  subst hh1
  have hd65 := declaredLen_lt (htyp :: mcnt :: hi :: lo :: rest)
  rw [← hdecl] at hov hd65
  -- validated payload length
  have hvpl : validatedPayloadLength (stdHeaderOf (htyp :: mcnt :: hi :: lo :: rest))
      (htyp :: mcnt :: hi :: lo :: rest).length = some (.ok (d - Spec.allHeadersLen htyp)) := by
    unfold validatedPayloadLength StandardHeader.overallLengthPanics StandardHeader.overallLength asU16
    rw [hov, hcalc]
    have e1 : decide (d > 65535) = false := by simp; omega
    have e2 : d % 65536 = d := Nat.mod_eq_of_lt hd65
    simp only [e1, Bool.false_eq_true, if_false, e2]
    rw [if_neg (by omega), if_neg (by omega)]
  unfold msgBody
  rw [hexact, PRes.andThen_ok, hvpl]
  simp only [hext, bodyOf, List.headD_cons]
  -- the extended header and what follows the headers
  have hdrop : ((htyp :: mcnt :: hi :: lo :: rest).drop (Spec.allHeadersLen htyp)).drop
      (d - Spec.allHeadersLen htyp) = (htyp :: mcnt :: hi :: lo :: rest).drop d := by
    rw [List.drop_drop]; congr 1; omega
  have hlen_after : d - Spec.allHeadersLen htyp
      ≤ ((htyp :: mcnt :: hi :: lo :: rest).drop (Spec.allHeadersLen htyp)).length := by
    rw [List.length_drop]; omega
  by_cases hb0 : Spec.bit htyp 0
  · have hall' : Spec.allHeadersLen htyp = Spec.stdHeaderLen htyp + 10 := by
      simp [Spec.allHeadersLen, hb0]
    have hex := dltExtendedHeader_exact ((htyp :: mcnt :: hi :: lo :: rest).drop (Spec.stdHeaderLen htyp))
      (by rw [List.length_drop]; omega)
    simp only [hb0, if_true, hex, PRes.map_ok, PRes.andThen_ok]
    have hdd : ((htyp :: mcnt :: hi :: lo :: rest).drop (Spec.stdHeaderLen htyp)).drop 10
        = (htyp :: mcnt :: hi :: lo :: rest).drop (Spec.allHeadersLen htyp) := by
      rw [List.drop_drop, hall']
    rw [hdd]
    have := tailOf_spec (stdHeaderOf (htyp :: mcnt :: hi :: lo :: rest))
      (some (extAt ((htyp :: mcnt :: hi :: lo :: rest).drop (Spec.stdHeaderLen htyp))))
      (extAt ((htyp :: mcnt :: hi :: lo :: rest).drop (Spec.stdHeaderLen htyp))).verbose
      (extAt ((htyp :: mcnt :: hi :: lo :: rest).drop (Spec.stdHeaderLen htyp))).argumentCount.toNat
      (some (extAt ((htyp :: mcnt :: hi :: lo :: rest).drop (Spec.stdHeaderLen htyp))).messageType)
      ((htyp :: mcnt :: hi :: lo :: rest).drop (Spec.allHeadersLen htyp))
      (d - Spec.allHeadersLen htyp) hlen_after
    rw [hdrop] at this
    unfold tailOf at this
    constructor
    · intro m hm
      cases hp : decodePayload (stdHeaderOf (htyp :: mcnt :: hi :: lo :: rest)).endianness
          (some (extAt ((htyp :: mcnt :: hi :: lo :: rest).drop (Spec.stdHeaderLen htyp))))
          (((htyp :: mcnt :: hi :: lo :: rest).drop (Spec.allHeadersLen htyp)).take
            (d - Spec.allHeadersLen htyp)) with
      | none => rw [hp] at hm; cases hm
      | some p =>
        rw [hp] at hm
        simp only [Option.map_some, Option.some.injEq] at hm
        subst hm
        exact this.1 p hp
    · intro hnone
      have hp : decodePayload (stdHeaderOf (htyp :: mcnt :: hi :: lo :: rest)).endianness
          (some (extAt ((htyp :: mcnt :: hi :: lo :: rest).drop (Spec.stdHeaderLen htyp))))
          (((htyp :: mcnt :: hi :: lo :: rest).drop (Spec.allHeadersLen htyp)).take
            (d - Spec.allHeadersLen htyp)) = none := by
        cases hq : decodePayload (stdHeaderOf (htyp :: mcnt :: hi :: lo :: rest)).endianness
          (some (extAt ((htyp :: mcnt :: hi :: lo :: rest).drop (Spec.stdHeaderLen htyp))))
          (((htyp :: mcnt :: hi :: lo :: rest).drop (Spec.allHeadersLen htyp)).take
            (d - Spec.allHeadersLen htyp)) with
        | none => rfl
        | some p => rw [hq] at hnone; cases hnone
      exact this.2 hp
  · have hall' : Spec.allHeadersLen htyp = Spec.stdHeaderLen htyp := by
      simp [Spec.allHeadersLen, hb0]
    simp only [hb0, Bool.false_eq_true, if_false, PRes.andThen_ok]
    rw [← hall']
    have := tailOf_spec (stdHeaderOf (htyp :: mcnt :: hi :: lo :: rest)) none false 0 none
      ((htyp :: mcnt :: hi :: lo :: rest).drop (Spec.allHeadersLen htyp))
      (d - Spec.allHeadersLen htyp) hlen_after
    rw [hdrop] at this
    unfold tailOf at this
    constructor
    · intro m hm
      cases hp : decodePayload (stdHeaderOf (htyp :: mcnt :: hi :: lo :: rest)).endianness none
          (((htyp :: mcnt :: hi :: lo :: rest).drop (Spec.allHeadersLen htyp)).take
            (d - Spec.allHeadersLen htyp)) with
      | none => rw [hp] at hm; cases hm
      | some p =>
        rw [hp] at hm
        simp only [Option.map_some, Option.some.injEq] at hm
        subst hm
        exact this.1 p hp
    · intro hnone
      have hp : decodePayload (stdHeaderOf (htyp :: mcnt :: hi :: lo :: rest)).endianness none
          (((htyp :: mcnt :: hi :: lo :: rest).drop (Spec.allHeadersLen htyp)).take
            (d - Spec.allHeadersLen htyp)) = none := by
        cases hq : decodePayload (stdHeaderOf (htyp :: mcnt :: hi :: lo :: rest)).endianness none
          (((htyp :: mcnt :: hi :: lo :: rest).drop (Spec.allHeadersLen htyp)).take
            (d - Spec.allHeadersLen htyp)) with
        | none => rfl
        | some p => rw [hq] at hnone; cases hnone
      exact this.2 hp

-- the Spec's headers only look at the bytes of the message -------------------------------------------

theorem getD_take (bs : Bytes) (d k : Nat) (x : BitVec 8) (h : k < d) :
    (bs.take d).getD k x = bs.getD k x := by
  simp [List.getD, h]

theorem headD_take (bs : Bytes) (d : Nat) (x : BitVec 8) (h : 0 < d) :
    (bs.take d).headD x = bs.headD x := by
  cases bs with
  | nil => simp
  | cons b t =>
    cases d with
    | zero => omega
    | succ d => rfl

theorem at4_take (bs : Bytes) (d o : Nat) (h : o + 4 ≤ d) : at4 (bs.take d) o = at4 bs o := by
  unfold at4
  rw [List.drop_take, List.take_take]
  congr 1
  omega

theorem stdHeaderOf_take (bs : Bytes) (d : Nat) (h : Spec.stdHeaderLen (bs.headD 0#8) ≤ d) :
    stdHeaderOf (bs.take d) = stdHeaderOf bs := by
  have h4 := FramingStorage.stdHeaderLen_ge (bs.headD 0#8)
  unfold stdHeaderOf
  have hh := headD_take bs d 0#8 (by omega)
  simp only [hh, getD_take bs d 1 0#8 (by omega), FramingStorage.declaredLen_take bs d (by omega)]
  simp only [Spec.stdHeaderLen] at h
  by_cases b2 : Spec.bit (bs.headD 0#8) 2 <;> by_cases b3 : Spec.bit (bs.headD 0#8) 3 <;>
    by_cases b4 : Spec.bit (bs.headD 0#8) 4 <;>
    simp only [b2, b3, b4, if_true, if_false, Bool.false_eq_true] at h ⊢ <;>
    simp (disch := omega) only [at4_take]

theorem getD_drop (bs : Bytes) (o k : Nat) (x : BitVec 8) : (bs.drop o).getD k x = bs.getD (o + k) x := by
  simp [List.getD, List.getElem?_drop]

theorem extHeaderOf_take (bs : Bytes) (d : Nat) (h : Spec.allHeadersLen (bs.headD 0#8) ≤ d) :
    extHeaderOf (bs.take d)
      = if Spec.bit (bs.headD 0#8) 0 then some (extAt (bs.drop (Spec.stdHeaderLen (bs.headD 0#8))))
        else none := by
  have h4 := FramingStorage.stdHeaderLen_ge (bs.headD 0#8)
  have hsa := FramingStorage.stdHeaderLen_le_all (bs.headD 0#8)
  unfold extHeaderOf
  have hh := headD_take bs d 0#8 (by omega)
  simp only [hh]
  by_cases b0 : Spec.bit (bs.headD 0#8) 0
  · have hall : Spec.allHeadersLen (bs.headD 0#8) = Spec.stdHeaderLen (bs.headD 0#8) + 10 := by
      unfold Spec.allHeadersLen; rw [if_pos b0]
    simp only [b0, if_true, extAt]
    rw [getD_take _ _ _ _ (by omega), getD_take _ _ _ _ (by omega), at4_take _ _ _ (by omega),
      at4_take _ _ _ (by omega)]
    simp only [getD_drop, Nat.add_zero, at4, List.drop_drop]
  · simp only [b0, Bool.false_eq_true, if_false]

/-- the Spec's complete-message decoder in terms of the buffer -/
theorem decodeComplete_take (bs : Bytes) (d : Nat) (hf : Spec.framing bs = .complete d)
    (sh : Option StorageHeader) (c : Nat) :
    decodeComplete sh (bs.take d) c
      = match bodyOf bs d with
        | some m => .item { m with storageHeader := sh } c
        | none => .reject := by
  obtain ⟨htyp, t, hbs, hstd, hall, hdlen, hdecl⟩ := (FramingStorage.framing_complete_iff bs d).1 hf
  have hhead : bs.headD 0#8 = htyp := by rw [hbs]; rfl
  have h4 := FramingStorage.stdHeaderLen_ge htyp
  have hsa := FramingStorage.stdHeaderLen_le_all htyp
  unfold decodeComplete bodyOf
  rw [stdHeaderOf_take bs d (by rw [hhead]; omega), extHeaderOf_take bs d (by rw [hhead]; omega),
    headD_take bs d 0#8 (by omega), List.drop_take]
  simp only [hhead]
  cases decodePayload (stdHeaderOf bs).endianness
      (if Spec.bit htyp 0 = true then some (extAt (bs.drop (Spec.stdHeaderLen htyp))) else none)
      ((bs.drop (Spec.allHeadersLen htyp)).take (d - Spec.allHeadersLen htyp)) <;> rfl

-- storage header ---------------------------------------------------------------------------------

theorem bitsN_little4 (r : Bytes) (h : 4 ≤ r.length) :
    bitsN .little 4 r = .ok (BitVec.ofNat 32 (numBE (r.take 4).reverse)) (r.drop 4) := by
  have hl : ¬ r.length < 4 := by omega
  simp only [bitsN, uintN, hl, if_false, PRes.map_ok, Endian.value, numBE_eq_fromBE, fromBE,
    List.reverse_reverse]

open FramingStorage in
theorem storageHeaderTail_exact (c : Nat) (i : Bytes) (h : 12 ≤ i.length) :
    storageHeaderTail c i
      = .ok (some ({ timestamp := { seconds := BitVec.ofNat 32 (numBE (i.take 4).reverse)
                                    microseconds := BitVec.ofNat 32 (numBE ((i.drop 4).take 4).reverse) }
                     ecuId := fieldText ((i.drop 8).take 4) }, c)) (i.drop 12) := by
  unfold storageHeaderTail
  simp (disch := (first | omega | (simp only [List.length_drop]; omega))) only [bitsN_little4, zts4,
    PRes.andThen_ok, List.drop_drop]

open FramingStorage in
/-- exact form of `dltMessageIntern_storage`: the storage header is the one the Spec reads -/
theorem dltMessageIntern_storage_exact (bs : Bytes) (f : Option ProcessedFilter) (skip : Nat)
    (h16 : 16 ≤ bs.length) (hs : Spec.firstPattern bs = some skip) (h : 16 ≤ bs.length - skip) :
    dltMessageIntern bs f true =
      (dltMessageIntern (bs.drop (skip + 16)) f false).map
        (ParsedMessage.withStorage (storageHeaderOf ((bs.drop skip).take 16))) := by
  have hp := ((firstPattern_some_iff bs skip).1 hs).1
  have hlen : ((bs.drop skip).drop 4).length = bs.length - skip - 4 := by
    simp only [List.length_drop]
  have hsh := storageHeaderTail_exact skip ((bs.drop skip).drop 4) (by omega)
  rw [dltMessageIntern_true_eq, dltStorageHeader_eq, if_neg (by omega), hs]
  simp only []
  rw [storageHeaderAt_pattern skip _ hp, hsh, PRes.andThen_ok, dltMessageIntern_false_eq]
  have hd : (((bs.drop skip).drop 4).drop 12) = bs.drop (skip + 16) := by
    rw [List.drop_drop, List.drop_drop]
  rw [hd]
  have hshe : ({ timestamp := { seconds := BitVec.ofNat 32 (numBE (((bs.drop skip).drop 4).take 4).reverse)
                                microseconds := BitVec.ofNat 32 (numBE ((((bs.drop skip).drop 4).drop 4).take 4).reverse) }
                 ecuId := fieldText ((((bs.drop skip).drop 4).drop 8).take 4) } : StorageHeader)
      = storageHeaderOf ((bs.drop skip).take 16) := by
    unfold storageHeaderOf at4
    simp only [List.drop_take, List.take_take, List.drop_drop]
    rfl
  simp only [Option.map_some]
  rw [hshe]
  exact msgBody_some _ _ f

end Dlt
