/-
  C11, layers L1 + L2a: the reader (`Reader::read_event`, `read_pdu`, `read_frame`, the file
  loop of `read_fibexes`) run on the rendering of abstract documents accumulates exactly
  `accOf` of their elements.
-/
import DltVerif.Lemmas.FibexBuild

namespace Dlt.Fibex
open Dlt.Fibex.Spec

-- decimal numbers ----------------------------------------------------------------------

def digitByte (c : Char) : BitVec 8 := BitVec.ofNat 8 c.toNat

theorem ofDigitChars_ge (l : List Char) (init : Nat) : init ≤ Nat.ofDigitChars 10 l init := by
  rw [Nat.ofDigitChars_eq_ofDigitChars_zero]
  have : 1 ≤ 10 ^ l.length := Nat.pow_pos (by omega)
  calc init = 1 * init := by omega
    _ ≤ 10 ^ l.length * init := Nat.mul_le_mul_right _ this
    _ ≤ _ := Nat.le_add_right _ _

theorem parseDigits_digits (l : List Char) (acc : Nat) (hd : ∀ c ∈ l, c.isDigit = true)
    (hlt : Nat.ofDigitChars 10 l acc < 2 ^ 64) :
    parseDigits (l.map digitByte) acc = some (Nat.ofDigitChars 10 l acc) := by
  induction l generalizing acc with
  | nil => simp [parseDigits]
  | cons c cs ih =>
    have hc := hd c (List.mem_cons_self ..)
    simp only [Char.isDigit, Bool.and_eq_true, decide_eq_true_eq] at hc
    have h1 : 48 ≤ c.toNat := by
      exact UInt32.le_iff_toNat_le.mp hc.1
    have h2 : c.toNat ≤ 57 := by
      exact UInt32.le_iff_toNat_le.mp hc.2
    have hb : (digitByte c).toNat = c.toNat := by
      simp only [digitByte, BitVec.toNat_ofNat]; omega
    rw [Nat.ofDigitChars_cons] at hlt ⊢
    have hacc : acc * 10 + (c.toNat - 0x30) = 10 * acc + (c.toNat - '0'.toNat) := by
      simp only [Char.reduceToNat]; omega
    have hge := ofDigitChars_ge cs (10 * acc + (c.toNat - '0'.toNat))
    simp only [List.map_cons, parseDigits, hb]
    rw [if_pos ⟨h1, h2⟩]
    simp only [hacc]
    rw [if_pos (by omega)]
    exact ih _ (fun c hc => hd c (List.mem_cons_of_mem _ hc)) hlt

theorem parseUsize_digits (n : Nat) (h : n < 2 ^ 64) : parseUsize (digits n) = some n := by
  have hd : ∀ c ∈ Nat.toDigits 10 n, c.isDigit = true :=
    fun c hc => Nat.isDigit_of_mem_toDigits (by omega) (by omega) hc
  have hv : Nat.ofDigitChars 10 (Nat.toDigits 10 n) 0 = n := Nat.ofDigitChars_toDigits (by omega) (by omega)
  have hmap : digits n = (Nat.toDigits 10 n).map digitByte := rfl
  rw [hmap]
  cases hl : Nat.toDigits 10 n with
  | nil => exact absurd hl Nat.toDigits_ne_nil
  | cons c cs =>
    have hc := hd c (by rw [hl]; exact List.mem_cons_self ..)
    simp only [Char.isDigit, Bool.and_eq_true, decide_eq_true_eq] at hc
    have h1 : 48 ≤ c.toNat := by
      exact UInt32.le_iff_toNat_le.mp hc.1
    have h2 : c.toNat ≤ 57 := by
      exact UInt32.le_iff_toNat_le.mp hc.2
    have hne : digitByte c ≠ 0x2B#8 := by
      intro heq
      have := congrArg BitVec.toNat heq
      simp only [digitByte, BitVec.toNat_ofNat] at this
      omega
    simp only [List.map_cons, parseUsize, hne, if_false]
    have := parseDigits_digits (c :: cs) 0 (by rw [← hl]; exact hd) (by rw [← hl, hv]; exact h)
    rw [← hl, hv] at this
    rw [hl] at this
    exact this

theorem digits_ne_nil (n : Nat) : digits n ≠ [] := by
  have hmap : digits n = (Nat.toDigits 10 n).map digitByte := rfl
  rw [hmap]
  intro h
  exact Nat.toDigits_ne_nil (List.map_eq_nil_iff.mp h)

-- attributes -----------------------------------------------------------------------------

theorem attrReq_id (id : Bytes) : attrReq B_ID (idAttr id) = .ok id := by
  simp [attrReq, attrOpt, idAttr, keyMatches]

theorem attrReq_idRef (r : Bytes) : attrReq B_ID_REF (idRefAttr r) = .ok r := by
  simp [attrReq, attrOpt, idRefAttr, keyMatches]

theorem attrReq_baseDataType (b : Bytes) :
    attrReq B_BASE_DATA_TYPE [.ok HO_BASE_DATA_TYPE (some b), .ok CATEGORY (some STANDARD_LENGTH_TYPE)]
      = .ok b := by
  have : keyMatches HO_BASE_DATA_TYPE B_BASE_DATA_TYPE = some true := by decide
  simp [attrReq, attrOpt, this]

-- one-step unfoldings of the loops, given what `read_event` returns ---------------------------

theorem readPdu_sig {st st' : RState} {evs evs' : List XmlEv} {acc : List (Nat × Bytes)}
    {id r : Bytes} {sn : Nat}
    (h : readEvent st evs = (.ok (.signalInstance id sn r), st', evs')) :
    readPdu st evs acc = readPdu st' evs' (acc ++ [(sn, r)]) := by
  rw [readPdu]
  split <;> (rename_i heq; rw [h] at heq; cases heq <;> rfl)

theorem readPdu_end {st st' : RState} {evs evs' : List XmlEv} {acc : List (Nat × Bytes)}
    {sn desc : Option Bytes} {bl : Nat}
    (h : readEvent st evs = (.ok (.pduEnd sn desc bl), st', evs')) :
    readPdu st evs acc = (.ok (desc, (sortByKey acc).map (·.2)), st', evs') := by
  rw [readPdu]
  split <;> (rename_i heq; rw [h] at heq; cases heq <;> rfl)

theorem readFrame_inst {st st' : RState} {evs evs' : List XmlEv} {acc : List (Nat × Bytes)}
    {ext : FrameExt} {id r : Bytes} {sn : Nat}
    (h : readEvent st evs = (.ok (.pduInstance id r sn), st', evs')) :
    readFrame st evs acc ext = readFrame st' evs' (acc ++ [(sn, r)]) ext := by
  rw [readFrame]
  split <;> (rename_i heq; rw [h] at heq; cases heq <;> rfl)

theorem readFrame_ext {st st' : RState} {evs evs' : List XmlEv} {acc : List (Nat × Bytes)}
    {ext : FrameExt} {mt mi app ctx : Option Bytes}
    (h : readEvent st evs = (.ok (.manufacturerExtension mt mi app ctx), st', evs')) :
    readFrame st evs acc ext
      = readFrame st' evs' acc { contextId := ctx, applicationId := app, messageType := mt, messageInfo := mi } := by
  rw [readFrame]
  split <;> (rename_i heq; rw [h] at heq; cases heq <;> rfl)

theorem readFrame_end {st st' : RState} {evs evs' : List XmlEv} {acc : List (Nat × Bytes)}
    {ext : FrameExt} {sn : Bytes} {bl : Nat}
    (h : readEvent st evs = (.ok (.frameEnd sn bl), st', evs')) :
    readFrame st evs acc ext
      = (.ok { shortName := sn, contextId := ext.contextId, applicationId := ext.applicationId
               messageType := ext.messageType, messageInfo := ext.messageInfo
               pduRefs := (sortByKey acc).map (·.2) }, st', evs') := by
  rw [readFrame]
  split <;> (rename_i heq; rw [h] at heq; cases heq <;> rfl)

theorem readFile_pdu {st st1 st2 : RState} {evs evs1 evs2 : List XmlEv} {acc : Acc} {id : Bytes}
    {p : Option Bytes × List Bytes}
    (h : readEvent st evs = (.ok (.pduStart id), st1, evs1))
    (hp : readPdu st1 evs1 [] = (.ok p, st2, evs2)) :
    readFile st evs acc = readFile st2 evs2 { acc with pdus := acc.pdus ++ [(id, p)] } := by
  rw [readFile]
  split <;> (rename_i heq; rw [h] at heq; cases heq)
  dsimp only
  split <;> (rename_i hq; rw [hp] at hq; cases hq <;> rfl)

theorem readFile_frame {st st1 st2 : RState} {evs evs1 evs2 : List XmlEv} {acc : Acc} {id : Bytes}
    {f : FrameReadData}
    (h : readEvent st evs = (.ok (.frameStart id), st1, evs1))
    (hp : readFrame st1 evs1 [] {} = (.ok f, st2, evs2)) :
    readFile st evs acc = readFile st2 evs2 { acc with frames := acc.frames ++ [(id, f)] } := by
  rw [readFile]
  split <;> (rename_i heq; rw [h] at heq; cases heq)
  dsimp only
  split <;> (rename_i hq; rw [hp] at hq; cases hq <;> rfl)

theorem readFile_signal {st st' : RState} {evs evs' : List XmlEv} {acc : Acc} {id c : Bytes}
    (h : readEvent st evs = (.ok (.signal id c), st', evs')) :
    readFile st evs acc = readFile st' evs' { acc with signals := insertKV acc.signals id c } := by
  rw [readFile]
  split <;> (rename_i heq; rw [h] at heq; cases heq <;> rfl)

theorem readFile_coding {st st' : RState} {evs evs' : List XmlEv} {acc : Acc} {id b : Bytes}
    (h : readEvent st evs = (.ok (.coding id b), st', evs')) :
    readFile st evs acc = readFile st' evs' { acc with codings := insertKV acc.codings id b } := by
  rw [readFile]
  split <;> (rename_i heq; rw [h] at heq; cases heq <;> rfl)

theorem readFile_eof {st st' : RState} {evs evs' : List XmlEv} {acc : Acc}
    (h : readEvent st evs = (.ok .eof, st', evs')) :
    readFile st evs acc = .ok acc := by
  rw [readFile]
  split <;> (rename_i heq; rw [h] at heq; cases heq <;> rfl)


-- instances ------------------------------------------------------------------------------

theorem readEvent_sigInst (st : RState) (i : Inst) (rest : List XmlEv) (h : i.wf = true) :
    readEvent st (renderSigInst i ++ rest)
      = (.ok (.signalInstance i.id i.seq i.ref),
         { st with id := none, sequenceNumber := none, ref := none }, rest) := by
  have hp := parseUsize_digits i.seq (by simpa [Inst.wf] using h)
  cases hr : i.refFirst <;>
    simp [renderSigInst, hr, textElem, digits_ne_nil, readEvent, readText, attrReq_id, attrReq_idRef, hp]

theorem readEvent_pduInst (st : RState) (i : Inst) (rest : List XmlEv) (h : i.wf = true) :
    readEvent st (renderPduInst i ++ rest)
      = (.ok (.pduInstance i.id i.ref i.seq),
         { st with id := none, sequenceNumber := none, ref := none }, rest) := by
  have hp := parseUsize_digits i.seq (by simpa [Inst.wf] using h)
  cases hr : i.refFirst <;>
    simp [renderPduInst, hr, textElem, digits_ne_nil, readEvent, readText, attrReq_id, attrReq_idRef, hp]

/-- `read_pdu` over the signal instances and the end of the PDU -/
theorem readPdu_insts (insts : List Inst) (hw : insts.all Inst.wf = true) (bl : Nat)
    (d : Option Bytes) (rest : List XmlEv) :
    ∀ (st : RState) (acc : List (Nat × Bytes)), st.byteLength = some bl → st.description = d →
    ∃ st', readPdu st ((insts.map renderSigInst).flatten ++ (.end_ .other :: .end_ .PDU :: rest)) acc
      = (.ok (d, (sortByKey (acc ++ insts.map fun i => (i.seq, i.ref))).map (·.2)), st', rest) := by
  induction insts with
  | nil =>
    intro st acc hb hd
    refine ⟨{ st with shortName := none, description := none, byteLength := none }, ?_⟩
    simp only [List.map_nil, List.flatten_nil, List.nil_append, List.append_nil]
    rw [readPdu_end (sn := st.shortName) (desc := d) (bl := bl)
          (st' := { st with shortName := none, description := none, byteLength := none }) (evs' := rest)]
    simp [readEvent, hb, hd]
  | cons i insts ih =>
    intro st acc hb hd
    simp only [List.all_cons, Bool.and_eq_true] at hw
    simp only [List.map_cons, List.flatten_cons, List.append_assoc]
    rw [readPdu_sig (readEvent_sigInst st i _ hw.1)]
    obtain ⟨st', h'⟩ := ih hw.2 { st with id := none, sequenceNumber := none, ref := none }
      (acc ++ [(i.seq, i.ref)]) hb hd
    exact ⟨st', by rw [h']; simp⟩

-- silent prefixes ------------------------------------------------------------------------

/-- one unfolding of `read_pdu` in terms of the result of `read_event` -/
def pduStep (r : Res Event) (st' : RState) (evs' : List XmlEv) (acc : List (Nat × Bytes)) :
    Res (Option Bytes × List Bytes) × RState × List XmlEv :=
  match r with
  | .err => (.err, st', evs')
  | .panic => (.panic, st', evs')
  | .ok ev =>
    match ev with
    | .signalInstance _ sn r => readPdu st' evs' (acc ++ [(sn, r)])
    | .pduEnd _ desc _ => (.ok (desc, (sortByKey acc).map (·.2)), st', evs')
    | .eof => (.err, st', evs')
    | _ => readPdu st' evs' acc

theorem readPdu_of {st st' : RState} {evs evs' : List XmlEv} {acc : List (Nat × Bytes)} {r : Res Event}
    (h : readEvent st evs = (r, st', evs')) : readPdu st evs acc = pduStep r st' evs' acc := by
  rw [readPdu]
  split <;> (rename_i heq; rw [h] at heq; cases heq)
  · rfl
  · rfl
  · cases ‹Event› <;> rfl

/-- events that `read_event` passes over do not matter to `read_pdu` -/
theorem readPdu_silent {st st' : RState} {evs evs' : List XmlEv} (acc : List (Nat × Bytes))
    (h : readEvent st evs = readEvent st' evs') : readPdu st evs acc = readPdu st' evs' acc := by
  rw [readPdu_of (r := (readEvent st' evs').1) (st' := (readEvent st' evs').2.1)
        (evs' := (readEvent st' evs').2.2) h,
      readPdu_of (st := st') (evs := evs') (r := (readEvent st' evs').1)
        (st' := (readEvent st' evs').2.1) (evs' := (readEvent st' evs').2.2) rfl]

def frameStep (r : Res Event) (st' : RState) (evs' : List XmlEv) (acc : List (Nat × Bytes))
    (ext : FrameExt) : Res FrameReadData × RState × List XmlEv :=
  match r with
  | .err => (.err, st', evs')
  | .panic => (.panic, st', evs')
  | .ok ev =>
    match ev with
    | .pduInstance _ r sn => readFrame st' evs' (acc ++ [(sn, r)]) ext
    | .manufacturerExtension mt mi app ctx =>
      readFrame st' evs' acc { contextId := ctx, applicationId := app, messageType := mt, messageInfo := mi }
    | .frameEnd sn _ =>
      (.ok { shortName := sn, contextId := ext.contextId, applicationId := ext.applicationId
             messageType := ext.messageType, messageInfo := ext.messageInfo
             pduRefs := (sortByKey acc).map (·.2) }, st', evs')
    | .eof => (.err, st', evs')
    | _ => readFrame st' evs' acc ext

theorem readFrame_of {st st' : RState} {evs evs' : List XmlEv} {acc : List (Nat × Bytes)}
    {ext : FrameExt} {r : Res Event}
    (h : readEvent st evs = (r, st', evs')) : readFrame st evs acc ext = frameStep r st' evs' acc ext := by
  rw [readFrame]
  split <;> (rename_i heq; rw [h] at heq; cases heq)
  · rfl
  · rfl
  · cases ‹Event› <;> rfl

theorem readFrame_silent {st st' : RState} {evs evs' : List XmlEv} (acc : List (Nat × Bytes))
    (ext : FrameExt)
    (h : readEvent st evs = readEvent st' evs') : readFrame st evs acc ext = readFrame st' evs' acc ext := by
  rw [readFrame_of (r := (readEvent st' evs').1) (st' := (readEvent st' evs').2.1)
        (evs' := (readEvent st' evs').2.2) h,
      readFrame_of (st := st') (evs := evs') (r := (readEvent st' evs').1)
        (st' := (readEvent st' evs').2.1) (evs' := (readEvent st' evs').2.2) rfl]

-- PDU element ------------------------------------------------------------------------------

/-- SHORT-NAME?, DESC?, BYTE-LENGTH, PDU-TYPE -/
def pduHead (p : PduDoc) : List XmlEv :=
  (match p.shortName with | some s => textElem .SHORT_NAME s | none => [])
    ++ (match p.desc with | some d => textElem .DESC d | none => [])
    ++ textElem .BYTE_LENGTH (digits p.byteLength)
    ++ textElem .PDU_TYPE OTHER

theorem OTHER_ne_nil : OTHER ≠ [] := by decide

theorem readEvent_pduHead (p : PduDoc) (hw : p.wf = true) (st : RState) (X : List XmlEv)
    (h1 : st.shortName = none) (h2 : st.description = none) :
    readEvent st (pduHead p ++ X)
      = readEvent { st with shortName := p.shortName, description := descOf p
                            byteLength := some p.byteLength } X := by
  obtain ⟨id, sn, desc, bl, sigs⟩ := p
  obtain ⟨sn0, d0, b0, i0, q0, r0, a0, c0, mt0, mi0, bd0⟩ := st
  simp only at h1 h2
  subst h1 h2
  simp only [PduDoc.wf, Bool.and_eq_true, decide_eq_true_eq] at hw
  have hp := parseUsize_digits bl hw.1.2
  have hsn := hw.1.1
  rcases sn with _ | s <;> rcases desc with _ | d
  · simp [pduHead, textElem, digits_ne_nil, OTHER_ne_nil, readEvent, readText, hp, descOf]
  · by_cases hd : d = []
    · simp [pduHead, textElem, digits_ne_nil, OTHER_ne_nil, readEvent, readText, hp, descOf, hd]
    · simp [pduHead, textElem, digits_ne_nil, OTHER_ne_nil, readEvent, readText, hp, descOf, hd]
  · have hs : s ≠ [] := by simpa [optNonEmpty] using hsn
    simp [pduHead, textElem, digits_ne_nil, OTHER_ne_nil, readEvent, readText, hp, descOf, hs]
  · have hs : s ≠ [] := by simpa [optNonEmpty] using hsn
    by_cases hd : d = []
    · simp [pduHead, textElem, digits_ne_nil, OTHER_ne_nil, readEvent, readText, hp, descOf, hd, hs]
    · simp [pduHead, textElem, digits_ne_nil, OTHER_ne_nil, readEvent, readText, hp, descOf, hd, hs]

theorem renderPdu_eq (p : PduDoc) (rest : List XmlEv) :
    renderPdu p ++ rest
      = .start .PDU (idAttr p.id) :: (pduHead p ++
          ((if p.signals = [] then []
            else .start .other [] :: ((p.signals.map renderSigInst).flatten ++ [.end_ .other]))
           ++ (.end_ .PDU :: rest))) := by
  obtain ⟨id, sn, desc, bl, sigs⟩ := p
  cases sn <;> cases desc <;> by_cases hs : sigs = [] <;>
    simp [renderPdu, pduHead, hs, List.append_assoc]

/-- the file loop over one rendered PDU element -/
theorem readFile_renderPdu (p : PduDoc) (hw : p.wf = true) (st : RState) (acc : Acc)
    (rest : List XmlEv) (S : List XmlEv) (hS : ∀ st Y, readEvent st (S ++ Y) = readEvent st Y) :
    ∃ st', readFile st (S ++ (renderPdu p ++ rest)) acc
      = readFile st' rest { acc with pdus := acc.pdus ++ [(p.id, (descOf p, ordered p.signals))] } := by
  rw [renderPdu_eq]
  have hstart : ∀ Y, readEvent st (S ++ .start .PDU (idAttr p.id) :: Y)
      = (.ok (.pduStart p.id), { st with shortName := none, byteLength := none, description := none }, Y) := by
    intro Y; rw [hS]; simp [readEvent, attrReq_id]
  have hsig : p.signals.all Inst.wf = true := by
    simp only [PduDoc.wf, Bool.and_eq_true] at hw; exact hw.2
  by_cases hs : p.signals = []
  · -- no signal instances: the head, then the end of the PDU
    simp only [hs, if_true, List.nil_append]
    have hend : readPdu { st with shortName := none, byteLength := none, description := none }
        (pduHead p ++ (.end_ .PDU :: rest)) []
        = (.ok (descOf p, ordered ([] : List Inst)),
           { st with shortName := none, byteLength := none, description := none }, rest) := by
      rw [readPdu_end (sn := p.shortName) (desc := descOf p) (bl := p.byteLength)
            (st' := { st with shortName := none, byteLength := none, description := none }) (evs' := rest)]
      · simp [ordered, sortByKey]
      · rw [readEvent_pduHead p hw _ _ rfl rfl]
        simp [readEvent]
    exact ⟨_, readFile_pdu (hstart _) hend⟩
  · simp only [hs, if_false]
    have hsil : readPdu { st with shortName := none, byteLength := none, description := none }
        (pduHead p ++ ((.start .other [] :: ((p.signals.map renderSigInst).flatten ++ [.end_ .other]))
          ++ (.end_ .PDU :: rest))) []
        = readPdu { st with shortName := p.shortName, description := descOf p, byteLength := some p.byteLength }
            ((p.signals.map renderSigInst).flatten ++ (.end_ .other :: .end_ .PDU :: rest)) [] := by
      apply readPdu_silent
      rw [readEvent_pduHead p hw _ _ rfl rfl]
      simp [readEvent]
    obtain ⟨st', h'⟩ := readPdu_insts p.signals hsig p.byteLength (descOf p) rest
      { st with shortName := p.shortName, description := descOf p, byteLength := some p.byteLength } [] rfl rfl
    refine ⟨st', readFile_pdu (hstart _) ?_⟩
    rw [hsil, h']
    simp [ordered]

-- FRAME element ----------------------------------------------------------------------------

theorem readFrame_insts (insts : List Inst) (hw : insts.all Inst.wf = true) (X : List XmlEv) :
    ∀ (st : RState) (acc : List (Nat × Bytes)) (ext : FrameExt),
    ∃ st', st'.shortName = st.shortName ∧ st'.byteLength = st.byteLength ∧
      readFrame st ((insts.map renderPduInst).flatten ++ X) acc ext
        = readFrame st' X (acc ++ insts.map fun i => (i.seq, i.ref)) ext := by
  induction insts with
  | nil => intro st acc ext; exact ⟨st, rfl, rfl, by simp⟩
  | cons i insts ih =>
    intro st acc ext
    simp only [List.all_cons, Bool.and_eq_true] at hw
    simp only [List.map_cons, List.flatten_cons, List.append_assoc]
    rw [readFrame_inst (readEvent_pduInst st i _ hw.1)]
    obtain ⟨st', h1, h2, h'⟩ := ih hw.2 { st with id := none, sequenceNumber := none, ref := none }
      (acc ++ [(i.seq, i.ref)]) ext
    exact ⟨st', h1, h2, by rw [h']; simp⟩

/-- the MANUFACTURER-EXTENSION block -/
def extBlock (x : ExtDoc) : List XmlEv :=
  [.start .MANUFACTURER_EXTENSION []]
    ++ optText .MESSAGE_TYPE x.messageType ++ optText .MESSAGE_INFO x.messageInfo
    ++ optText .APPLICATION_ID x.applicationId ++ optText .CONTEXT_ID x.contextId
    ++ [.end_ .MANUFACTURER_EXTENSION]

theorem readEvent_extBlock (x : ExtDoc) (hw : x.wf = true) (st : RState) (X : List XmlEv) :
    ∃ st', st'.shortName = st.shortName ∧ st'.byteLength = st.byteLength ∧
      readEvent st (extBlock x ++ X)
        = (.ok (.manufacturerExtension x.messageType x.messageInfo x.applicationId x.contextId), st', X) := by
  obtain ⟨mt, mi, app, ctx⟩ := x
  simp only [ExtDoc.wf, Bool.and_eq_true] at hw
  obtain ⟨⟨⟨h1, h2⟩, h3⟩, h4⟩ := hw
  refine ⟨{ st with applicationId := none, contextId := none, messageType := none, messageInfo := none },
    rfl, rfl, ?_⟩
  rcases mt with _ | mt <;> rcases mi with _ | mi <;> rcases app with _ | app <;> rcases ctx with _ | ctx <;>
    simp [optNonEmpty] at h1 h2 h3 h4 <;>
    simp [extBlock, optText, textElem, readEvent, readText, h1, h2, h3, h4]

theorem renderFrame_eq (f : FrameDoc) (rest : List XmlEv) :
    renderFrame f ++ rest
      = .start .FRAME (idAttr f.id) ::
          (textElem .SHORT_NAME f.shortName ++ ((match f.desc with | some d => textElem .DESC d | none => [])
            ++ (textElem .BYTE_LENGTH (digits f.byteLength)
            ++ (textElem .FRAME_TYPE OTHER ++ (.start .other [] ::
              ((f.pdus.map renderPduInst).flatten ++ (.end_ .other ::
                ((match f.ext with | some x => extBlock x | none => []) ++ (.end_ .FRAME :: rest))))))))) := by
  obtain ⟨id, sn, d, bl, pdus, ext⟩ := f
  cases ext <;> cases d <;> simp [renderFrame, extBlock, List.append_assoc]

theorem readFile_renderFrame (f : FrameDoc) (hw : f.wf = true) (st : RState) (acc : Acc)
    (rest : List XmlEv) (S : List XmlEv) (hS : ∀ st Y, readEvent st (S ++ Y) = readEvent st Y) :
    ∃ st', readFile st (S ++ (renderFrame f ++ rest)) acc
      = readFile st' rest { acc with frames := acc.frames ++ [(f.id, frameReadOf f)] } := by
  rw [renderFrame_eq]
  simp only [FrameDoc.wf, Bool.and_eq_true, decide_eq_true_eq] at hw
  obtain ⟨⟨⟨hsn, hbl⟩, hpd⟩, hext⟩ := hw
  have hsn' : f.shortName ≠ [] := by simpa using hsn
  have hp := parseUsize_digits f.byteLength hbl
  have hstart : ∀ Y, readEvent st (S ++ .start .FRAME (idAttr f.id) :: Y)
      = (.ok (.frameStart f.id), { st with shortName := none, byteLength := none }, Y) := by
    intro Y; rw [hS]; simp [readEvent, attrReq_id]
  -- the silent head
  have hsil : ∀ Y acc' ext, ∃ sth, sth.shortName = some f.shortName ∧ sth.byteLength = some f.byteLength ∧
      readFrame { st with shortName := none, byteLength := none }
        (textElem .SHORT_NAME f.shortName ++ ((match f.desc with | some d => textElem .DESC d | none => [])
          ++ (textElem .BYTE_LENGTH (digits f.byteLength)
          ++ (textElem .FRAME_TYPE OTHER ++ (.start .other [] :: Y))))) acc' ext
      = readFrame sth Y acc' ext := by
    intro Y acc' ext
    rcases hdesc : f.desc with _ | d
    · refine ⟨{ st with shortName := some f.shortName, byteLength := some f.byteLength }, rfl, rfl, ?_⟩
      apply readFrame_silent
      simp [textElem, hsn', digits_ne_nil, OTHER_ne_nil, readEvent, readText, hp]
    · by_cases hd : d = []
      · refine ⟨{ st with shortName := some f.shortName, byteLength := some f.byteLength, description := none },
          rfl, rfl, ?_⟩
        apply readFrame_silent
        simp [textElem, hsn', digits_ne_nil, OTHER_ne_nil, readEvent, readText, hp, hd]
      · refine ⟨{ st with shortName := some f.shortName, byteLength := some f.byteLength, description := some d },
          rfl, rfl, ?_⟩
        apply readFrame_silent
        simp [textElem, hsn', digits_ne_nil, OTHER_ne_nil, readEvent, readText, hp, hd]
  obtain ⟨sth, hsh1, hsh2, hsil'⟩ := hsil
    ((f.pdus.map renderPduInst).flatten ++ (.end_ .other ::
      ((match f.ext with | some x => extBlock x | none => []) ++ (.end_ .FRAME :: rest)))) [] {}
  obtain ⟨st1, hs1, hb1, hins⟩ := readFrame_insts f.pdus hpd
    (.end_ .other :: ((match f.ext with | some x => extBlock x | none => []) ++ (.end_ .FRAME :: rest)))
    sth [] {}
  rw [hsh1] at hs1
  rw [hsh2] at hb1
  cases hx : f.ext with
  | none =>
    rw [hx] at hins hsil'
    refine ⟨{ st1 with shortName := none, byteLength := none }, readFile_frame (hstart _) ?_⟩
    rw [hsil', hins]
    simp only [List.nil_append]
    rw [readFrame_end (sn := f.shortName) (bl := f.byteLength)
          (st' := { st1 with shortName := none, byteLength := none }) (evs' := rest)]
    · simp [frameReadOf, hx, ordered]
    · simp [readEvent, hs1, hb1]
  | some x =>
    rw [hx] at hext hins hsil'
    obtain ⟨st2, hs2, hb2, hev⟩ := readEvent_extBlock x hext st1 (.end_ .FRAME :: rest)
    refine ⟨{ st2 with shortName := none, byteLength := none }, readFile_frame (hstart _) ?_⟩
    rw [hsil', hins]
    have hsk : readEvent st1 (.end_ .other :: (extBlock x ++ (.end_ .FRAME :: rest)))
        = (.ok (.manufacturerExtension x.messageType x.messageInfo x.applicationId x.contextId), st2,
            .end_ .FRAME :: rest) := by
      rw [← hev]; simp [readEvent]
    rw [readFrame_ext hsk]
    rw [readFrame_end (sn := f.shortName) (bl := f.byteLength)
          (st' := { st2 with shortName := none, byteLength := none }) (evs' := rest)]
    · simp [frameReadOf, hx, ordered]
    · simp [readEvent, hs2, hb2, hs1, hb1]

-- SIGNAL and CODING elements -------------------------------------------------------------------

theorem readFile_renderSignal (id c : Bytes) (hw : id ≠ []) (st : RState) (acc : Acc)
    (rest : List XmlEv) (S : List XmlEv) (hS : ∀ st Y, readEvent st (S ++ Y) = readEvent st Y) :
    ∃ st', readFile st (S ++ (renderElem (.signal id c) ++ rest)) acc
      = readFile st' rest { acc with signals := insertKV acc.signals id c } := by
  refine ⟨{ st with shortName := some id, id := none, ref := none }, readFile_signal ?_⟩
  rw [hS]
  simp [renderElem, textElem, hw, readEvent, readText, attrReq_id, attrReq_idRef]

theorem readFile_renderCoding (id b : Bytes) (hw : id ≠ []) (st : RState) (acc : Acc)
    (rest : List XmlEv) (S : List XmlEv) (hS : ∀ st Y, readEvent st (S ++ Y) = readEvent st Y) :
    ∃ st', readFile st (S ++ (renderElem (.coding id b) ++ rest)) acc
      = readFile st' rest { acc with codings := insertKV acc.codings id b } := by
  refine ⟨{ st with shortName := some id, id := none, baseDataType := none }, readFile_coding ?_⟩
  rw [hS]
  simp [renderElem, textElem, hw, readEvent, readText, attrReq_id, attrReq_baseDataType]

-- whole files ------------------------------------------------------------------------------

/-- what one element adds to the accumulation -/
def accStep (acc : Acc) : Elem → Acc
  | .pdu p => { acc with pdus := acc.pdus ++ [(p.id, (descOf p, ordered p.signals))] }
  | .frame f => { acc with frames := acc.frames ++ [(f.id, frameReadOf f)] }
  | .signal id c => { acc with signals := insertKV acc.signals id c }
  | .coding id b => { acc with codings := insertKV acc.codings id b }

def accAdd (acc : Acc) (es : List Elem) : Acc := es.foldl accStep acc

theorem readFile_elems (d : List Elem) (hw : d.all Elem.wf = true) (rest : List XmlEv) :
    ∀ (st : RState) (acc : Acc) (S : List XmlEv) (_hS : ∀ st Y, readEvent st (S ++ Y) = readEvent st Y),
    ∃ st', readFile st (S ++ ((d.map renderElem).flatten ++ rest)) acc
      = readFile st' (if d = [] then S ++ rest else rest) (accAdd acc d) := by
  induction d with
  | nil => intro st acc S _; exact ⟨st, by simp [accAdd]⟩
  | cons e d ih =>
    intro st acc S hS
    simp only [List.all_cons, Bool.and_eq_true] at hw
    simp only [List.map_cons, List.flatten_cons, List.append_assoc, reduceCtorEq, if_false]
    have hnil : ∀ st Y, readEvent st (([] : List XmlEv) ++ Y) = readEvent st Y := fun _ _ => rfl
    have key : ∃ st1, readFile st (S ++ (renderElem e ++ ((d.map renderElem).flatten ++ rest))) acc
        = readFile st1 ((d.map renderElem).flatten ++ rest) (accStep acc e) := by
      cases e with
      | pdu p => exact readFile_renderPdu p hw.1 st acc _ S hS
      | frame f => exact readFile_renderFrame f hw.1 st acc _ S hS
      | signal id c => exact readFile_renderSignal id c (by simpa [Elem.wf] using hw.1) st acc _ S hS
      | coding id b => exact readFile_renderCoding id b (by simpa [Elem.wf] using hw.1) st acc _ S hS
    obtain ⟨st1, h1⟩ := key
    obtain ⟨st2, h2⟩ := ih hw.2 st1 (accStep acc e) [] hnil
    refine ⟨st2, ?_⟩
    rw [h1]
    simp only [List.nil_append] at h2
    rw [h2]
    simp only [accAdd, List.foldl_cons]
    split <;> rfl

/-- gap events are passed over by `read_event` -/
theorem gap_silent (g : List XmlEv) (hg : g.all isGap = true) :
    ∀ (st : RState) (Y : List XmlEv), readEvent st (g ++ Y) = readEvent st Y := by
  induction g with
  | nil => intro st Y; rfl
  | cons x g ih =>
    intro st Y
    simp only [List.all_cons, Bool.and_eq_true] at hg
    have := ih hg.2 st Y
    cases x with
    | other => simpa [readEvent] using this
    | text t => simpa [readEvent] using this
    | start t a => cases t <;> simp [isGap] at hg <;> simpa [readEvent] using this
    | empty t a => cases t <;> simp [isGap] at hg <;> simpa [readEvent] using this
    | end_ t => cases t <;> simp [isGap] at hg <;> simpa [readEvent] using this
    | err => simp [isGap] at hg

/-- the file loop over elements with gaps in front of each -/
theorem readFile_gapped (d : List (List XmlEv × Elem))
    (hw : d.all (fun x => x.1.all isGap && x.2.wf) = true) (rest : List XmlEv) :
    ∀ (st : RState) (acc : Acc),
    ∃ st', readFile st ((d.map fun x => x.1 ++ renderElem x.2).flatten ++ rest) acc
      = readFile st' rest (accAdd acc (d.map (·.2))) := by
  induction d with
  | nil => intro st acc; exact ⟨st, by simp [accAdd]⟩
  | cons x d ih =>
    intro st acc
    obtain ⟨g, e⟩ := x
    simp only [List.all_cons, Bool.and_eq_true] at hw
    obtain ⟨⟨hg, he⟩, hd⟩ := hw
    simp only [List.map_cons, List.flatten_cons, List.append_assoc]
    have hS := gap_silent g hg
    have key : ∃ st1, readFile st (g ++ (renderElem e ++ ((d.map fun x => x.1 ++ renderElem x.2).flatten ++ rest))) acc
        = readFile st1 ((d.map fun x => x.1 ++ renderElem x.2).flatten ++ rest) (accStep acc e) := by
      cases e with
      | pdu p => exact readFile_renderPdu p he st acc _ g hS
      | frame f => exact readFile_renderFrame f he st acc _ g hS
      | signal id c => exact readFile_renderSignal id c (by simpa [Elem.wf] using he) st acc _ g hS
      | coding id b => exact readFile_renderCoding id b (by simpa [Elem.wf] using he) st acc _ g hS
    obtain ⟨st1, h1⟩ := key
    obtain ⟨st2, h2⟩ := ih hd st1 (accStep acc e)
    refine ⟨st2, ?_⟩
    rw [h1, h2]
    simp only [accAdd, List.foldl_cons]

/-- the file loop over a document with gaps -/
theorem readFile_renderGapped (d : List (List XmlEv × Elem)) (tail : List XmlEv)
    (hw : d.all (fun x => x.1.all isGap && x.2.wf) = true) (ht : tail.all isGap = true) (acc : Acc) :
    readFile {} (renderGapped d tail) acc = .ok (accAdd acc (d.map (·.2))) := by
  have hhead : ([.other, .start .other [.ok [0x78#8] (some [0x79#8])], .start .other []] : List XmlEv).all isGap
      = true := by decide
  cases d with
  | nil =>
    apply readFile_eof (st' := {}) (evs' := [])
    have hall : ([.other, .start .other [.ok [0x78#8] (some [0x79#8])], .start .other []] ++ tail
        : List XmlEv).all isGap = true := by
      rw [List.all_append, hhead, ht]; rfl
    have hr : renderGapped [] tail
        = ([.other, .start .other [.ok [0x78#8] (some [0x79#8])], .start .other []] ++ tail)
          ++ [.end_ .other, .end_ .other] := by
      simp [renderGapped]
    rw [hr, gap_silent _ hall]
    simp [readEvent]
  | cons x d =>
    obtain ⟨g, e⟩ := x
    -- the head of the file joins the gap in front of the first element
    have hw' : (([.other, .start .other [.ok [0x78#8] (some [0x79#8])], .start .other []] ++ g, e) :: d).all
        (fun x => x.1.all isGap && x.2.wf) = true := by
      simp only [List.all_cons, Bool.and_eq_true] at hw ⊢
      refine ⟨⟨?_, hw.1.2⟩, hw.2⟩
      rw [List.all_append, hhead, hw.1.1]; rfl
    obtain ⟨st', h⟩ := readFile_gapped _ hw' (tail ++ [.end_ .other, .end_ .other]) {} acc
    have hr : renderGapped ((g, e) :: d) tail
        = ((([.other, .start .other [.ok [0x78#8] (some [0x79#8])], .start .other []] ++ g, e) :: d).map
            fun x => x.1 ++ renderElem x.2).flatten ++ (tail ++ [.end_ .other, .end_ .other]) := by
      simp [renderGapped]
    rw [hr, h]
    simp only [List.map_cons]
    apply readFile_eof (st' := st') (evs' := [])
    rw [gap_silent tail ht]
    simp [readEvent]

/-- the file loop over a rendered document -/
theorem readFile_render (d : FileDoc) (hw : d.all Elem.wf = true) (acc : Acc) :
    readFile {} (render d) acc = .ok (accAdd acc d) := by
  have hS : ∀ (st : RState) (Y : List XmlEv),
      readEvent st ([.other, .start .other [.ok [0x78#8] (some [0x79#8])], .start .other []] ++ Y)
        = readEvent st Y := by
    intro st Y; simp [readEvent]
  obtain ⟨st', h⟩ := readFile_elems d hw [.end_ .other, .end_ .other] {} acc _ hS
  have hr : render d = [.other, .start .other [.ok [0x78#8] (some [0x79#8])], .start .other []]
      ++ ((d.map renderElem).flatten ++ [.end_ .other, .end_ .other]) := by
    simp [render]
  rw [hr, h]
  apply readFile_eof (st' := st') (evs' := [])
  split <;> simp [readEvent]

theorem accAdd_append (acc : Acc) (a b : List Elem) : accAdd acc (a ++ b) = accAdd (accAdd acc a) b := by
  simp [accAdd, List.foldl_append]

/-- all files in order -/
theorem readFiles_render (files : List FileDoc) (hw : ∀ d ∈ files, d.all Elem.wf = true) (acc : Acc) :
    readFiles (files.map fun d => some (render d)) acc = .ok (accAdd acc files.flatten) := by
  induction files generalizing acc with
  | nil => rfl
  | cons d files ih =>
    simp only [List.map_cons, readFiles, List.flatten_cons]
    rw [readFile_render d (hw d (List.mem_cons_self ..))]
    simp only []
    rw [ih (fun d' h => hw d' (List.mem_cons_of_mem _ h)), accAdd_append]

/-- all files, each with gaps -/
theorem readFiles_renderGapped (files : List (List (List XmlEv × Elem) × List XmlEv))
    (hw : ∀ f ∈ files, f.1.all (fun x => x.1.all isGap && x.2.wf) = true ∧ f.2.all isGap = true)
    (acc : Acc) :
    readFiles (files.map fun f => some (renderGapped f.1 f.2)) acc
      = .ok (accAdd acc (files.map fun f => f.1.map (·.2)).flatten) := by
  induction files generalizing acc with
  | nil => rfl
  | cons f files ih =>
    simp only [List.map_cons, readFiles, List.flatten_cons]
    obtain ⟨h1, h2⟩ := hw f (List.mem_cons_self ..)
    rw [readFile_renderGapped f.1 f.2 h1 h2]
    simp only []
    rw [ih (fun f' h => hw f' (List.mem_cons_of_mem _ h)), accAdd_append]

theorem accAdd_eq (es : List Elem) (acc : Acc) :
    accAdd acc es
      = { pdus := acc.pdus ++ (pdusOf es).map fun p => (p.id, (descOf p, ordered p.signals))
          frames := acc.frames ++ (framesOf es).map fun f => (f.id, frameReadOf f)
          signals := insertAll (signalsOf es) acc.signals
          codings := insertAll (codingsOf es) acc.codings } := by
  induction es generalizing acc with
  | nil => simp [accAdd, pdusOf, framesOf, signalsOf, codingsOf, insertAll]
  | cons e es ih =>
    have : accAdd acc (e :: es) = accAdd (accStep acc e) es := rfl
    rw [this, ih]
    cases e <;> simp [accStep, pdusOf, framesOf, signalsOf, codingsOf, insertAll]

theorem accAdd_empty (es : List Elem) : accAdd {} es = accOf es := by
  rw [accAdd_eq]; simp [accOf]

end Dlt.Fibex
