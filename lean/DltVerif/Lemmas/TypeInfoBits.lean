/-
  C14: re-encoding a decoded type-info word reproduces every bit field the format uses for
  that kind (kind bits, VARI, TRAI, SCOD always; TYLE when the kind has a width; FIXP when the
  kind is an integer) and sets nothing else - the re-encoding differs from the word only in
  bits that are unused for the kind.
-/
import DltVerif.Lemmas.CodecTypeInfo

namespace Dlt
open Dlt.Spec

/-- the kind has a width field -/
def TypeInfoKind.hasWidth : TypeInfoKind → Bool
  | .bool => false | .stringType => false | .raw => false | _ => true

/-- the kind is an integer (FIXP is meaningful) -/
def TypeInfoKind.isInteger : TypeInfoKind → Bool
  | .signed _ => true | .unsigned _ => true | .signedFixedPoint _ => true | .unsignedFixedPoint _ => true
  | _ => false

/-- the part of the word the kind determines (TYLE, kind bits, FIXP) -/
def kindWord : TypeInfoKind → Nat
  | .bool => 16
  | .signed l => (match l with | .b8 => 1 | .b16 => 2 | .b32 => 3 | .b64 => 4 | .b128 => 5) + 32
  | .signedFixedPoint w => (match w with | .w32 => 3 | .w64 => 4) + 32 + 4096
  | .unsigned l => (match l with | .b8 => 1 | .b16 => 2 | .b32 => 3 | .b64 => 4 | .b128 => 5) + 64
  | .unsignedFixedPoint w => (match w with | .w32 => 3 | .w64 => 4) + 64 + 4096
  | .float w => (match w with | .w32 => 3 | .w64 => 4) + 128
  | .stringType => 512
  | .raw => 1024

theorem tiWord_eq_fields (t : TypeInfo) :
    tiWord t = kindWord t.kind + (if t.hasVariableInfo then 2048 else 0)
      + (if t.hasTraceInfo then 8192 else 0)
      + 32768 * (match t.coding with | .ascii => 0 | .utf8 => 1 | .reserved v => v.toNat % 8) := by
  unfold tiWord kindWord
  cases t.kind <;> rfl

/-- the kind part of the word agrees with the word on the kind bits, on TYLE when the kind has
    a width and on FIXP when the kind is an integer -/
def kindFieldsOk (n : Nat) : Bool :=
  match tiKind n with
  | none => true
  | some k =>
    decide (kindWord k / 16 % 128 = n / 16 % 128)
    && (!k.hasWidth || decide (kindWord k % 16 = n % 16))
    && (!k.isInteger || decide (kindWord k / 4096 % 2 = n / 4096 % 2))

/-- checked over all values of bits 0..12 -/
theorem kind_fields_table : ∀ v : BitVec 13, kindFieldsOk v.toNat = true := by
  decide +kernel

theorem kind_fields (n : Nat) (k : TypeInfoKind) (h : tiKind n = some k) :
    kindWord k / 16 % 128 = n / 16 % 128
    ∧ (k.hasWidth = true → kindWord k % 16 = n % 16)
    ∧ (k.isInteger = true → kindWord k / 4096 % 2 = n / 4096 % 2) := by
  have hlt : n % 8192 < 2 ^ 13 := Nat.mod_lt _ (by decide)
  have := kind_fields_table (BitVec.ofNat 13 (n % 8192))
  simp only [BitVec.toNat_ofNat, Nat.mod_eq_of_lt hlt, kindFieldsOk, tiKind_mod, h, Bool.and_eq_true,
    Bool.or_eq_true, Bool.not_eq_true', decide_eq_true_eq] at this
  obtain ⟨⟨h1, h2⟩, h3⟩ := this
  refine ⟨by omega, fun hw => ?_, fun hi => ?_⟩
  · rcases h2 with h2 | h2
    · rw [hw] at h2; cases h2
    · omega
  · rcases h3 with h3 | h3
    · rw [hi] at h3; cases h3
    · omega

/-- shape of the kind part: bits 0..10 and bit 12 only -/
theorem kindWord_shape (k : TypeInfoKind) :
    kindWord k % 4096 < 2048 ∧ kindWord k / 4096 < 2
      ∧ (k.hasWidth = false → kindWord k % 4096 % 16 = 0) ∧ (k.isInteger = false → kindWord k / 4096 = 0) := by
  cases k <;> (try (rename_i l; cases l)) <;> decide

/-- every field the format uses for the decoded kind is reproduced by the re-encoding, and no
    other bit is set in it -/
theorem tiWord_of_decode (n : Nat) (d : TypeInfo) (h : tiDecode n = some d) :
    let m := tiWord d
    m / 16 % 128 = n / 16 % 128                                      -- kind bits 4..10
    ∧ m / 2048 % 2 = n / 2048 % 2                                     -- VARI
    ∧ m / 8192 % 2 = n / 8192 % 2                                     -- TRAI
    ∧ m / 32768 % 8 = n / 32768 % 8                                   -- SCOD
    ∧ (d.kind.hasWidth = true → m % 16 = n % 16)                      -- TYLE
    ∧ (d.kind.isInteger = true → m / 4096 % 2 = n / 4096 % 2)         -- FIXP
    ∧ m / 16384 % 2 = 0 ∧ m / 262144 = 0                              -- STRU, reserved
    ∧ (d.kind.hasWidth = false → m % 16 = 0)
    ∧ (d.kind.isInteger = false → m / 4096 % 2 = 0) := by
  unfold tiDecode at h
  cases hk : tiKind n with
  | none => rw [hk] at h; cases h
  | some k =>
    rw [hk] at h
    simp only [Option.map_some, Option.some.injEq] at h
    subst h
    obtain ⟨k1, k2, k3⟩ := kind_fields n k hk
    obtain ⟨hlo, hx, hw0, hi0⟩ := kindWord_shape k
    have hkw : kindWord k = kindWord k % 4096 + 4096 * (kindWord k / 4096) := (Nat.mod_add_div _ _).symm
    generalize kindWord k % 4096 = lo at *
    generalize kindWord k / 4096 = x at *
    simp only []
    rw [tiWord_eq_fields]
    simp only []
    have hv : (if tiBit n 11 = true then 2048 else 0) = 2048 * (n / 2048 % 2) := by
      unfold tiBit
      by_cases hb : n / 2 ^ 11 % 2 = 1
      · have : n / 2048 % 2 = 1 := hb
        simp [hb, this]
      · have : n / 2048 % 2 = 0 := by have := Nat.mod_two_eq_zero_or_one (n / 2048); omega
        simp [hb, this]
    have ht : (if tiBit n 13 = true then 8192 else 0) = 8192 * (n / 8192 % 2) := by
      unfold tiBit
      by_cases hb : n / 2 ^ 13 % 2 = 1
      · have : n / 8192 % 2 = 1 := hb
        simp [hb, this]
      · have : n / 8192 % 2 = 0 := by have := Nat.mod_two_eq_zero_or_one (n / 8192); omega
        simp [hb, this]
    have hc : (match tiCoding n with | .ascii => 0 | .utf8 => 1 | .reserved v => v.toNat % 8)
        = n / 32768 % 8 := by
      unfold tiCoding
      have hlt : n / 32768 % 8 < 8 := Nat.mod_lt _ (by decide)
      generalize n / 32768 % 8 = c at hlt
      match c, hlt with
      | 0, _ => rfl | 1, _ => rfl | 2, _ => rfl | 3, _ => rfl | 4, _ => rfl | 5, _ => rfl
      | 6, _ => rfl | 7, _ => rfl
    rw [hv, ht, hc]
    -- name the fields of the word
    have hva : n / 2048 % 2 < 2 := Nat.mod_lt _ (by decide)
    have hta : n / 8192 % 2 < 2 := Nat.mod_lt _ (by decide)
    have hca : n / 32768 % 8 < 8 := Nat.mod_lt _ (by decide)
    generalize hvd : n / 2048 % 2 = a at *
    generalize htd : n / 8192 % 2 = b at *
    generalize hcd : n / 32768 % 8 = c at *
    rw [hkw]
    refine ⟨?_, by omega, by omega, by omega, fun hh => ?_, fun hh => ?_, by omega, by omega,
      fun hh => ?_, fun hh => ?_⟩
    · rw [← k1]; omega
    · rw [← k2 hh]; omega
    · rw [← k3 hh]; omega
    · have := hw0 hh; omega
    · have := hi0 hh; omega

end Dlt
