/-
  Basic facts about the byte vocabulary and the nom primitives: encode/decode
  round trips of the primitives, and inversion ("what an `ok` result tells") lemmas.
-/
import DltVerif.Model.Nom
import DltVerif.Model.Encode
import DltVerif.Lemmas.Utf8
import DltVerif.Lemmas.Zts

namespace Dlt

-- numbers -----------------------------------------------------------------

@[simp] theorem length_bytesLE (k n : Nat) : (bytesLE k n).length = k := by
  induction k generalizing n with
  | zero => simp [bytesLE]
  | succ k ih => simp [bytesLE, ih]

theorem fromLE_bytesLE (k n : Nat) (h : n < 256 ^ k) : fromLE (bytesLE k n) = n := by
  induction k generalizing n with
  | zero =>
    have : n = 0 := by simpa using h
    subst this
    simp [bytesLE, fromLE]
  | succ k ih =>
    simp only [bytesLE, fromLE, BitVec.toNat_ofNat]
    have hp := Nat.pow_succ 256 k
    have h1 : n / 256 < 256 ^ k := by
      rw [Nat.div_lt_iff_lt_mul (by decide)]; omega
    rw [ih _ h1]
    omega

/-- decoding any digit list gives a number below `256 ^ length` -/
theorem fromLE_lt (bs : Bytes) : fromLE bs < 256 ^ bs.length := by
  induction bs with
  | nil => simp [fromLE]
  | cons b t ih =>
    simp only [fromLE, List.length_cons]
    have hb := b.isLt
    have hp := Nat.pow_succ 256 t.length
    rw [hp]
    generalize 256 ^ t.length = P at *
    omega

/-- re-encoding a decoded digit list gives the digit list back -/
theorem bytesLE_fromLE (bs : Bytes) : bytesLE bs.length (fromLE bs) = bs := by
  induction bs with
  | nil => rfl
  | cons b t ih =>
    simp only [List.length_cons, bytesLE, fromLE]
    have hb := b.isLt
    have h1 : (b.toNat + 256 * fromLE t) / 256 = fromLE t := by omega
    have h2 : BitVec.ofNat 8 (b.toNat + 256 * fromLE t) = b := by
      apply BitVec.eq_of_toNat_eq
      rw [BitVec.toNat_ofNat]
      omega
    rw [h1, h2, ih]

@[simp] theorem Endian.length_bytes (e : Endian) (k n : Nat) : (e.bytes k n).length = k := by
  cases e <;> simp [Endian.bytes, bytesBE]

theorem Endian.value_bytes (e : Endian) (k n : Nat) (h : n < 256 ^ k) :
    e.value (e.bytes k n) = n := by
  cases e <;> simp [Endian.bytes, Endian.value, bytesBE, fromBE, fromLE_bytesLE k n h]

theorem Endian.value_lt (e : Endian) (bs : Bytes) : e.value bs < 256 ^ bs.length := by
  cases e
  · exact fromLE_lt bs
  · have := fromLE_lt bs.reverse
    simpa [Endian.value, fromBE] using this

theorem Endian.bytes_value (e : Endian) (bs : Bytes) : e.bytes bs.length (e.value bs) = bs := by
  cases e
  · exact bytesLE_fromLE bs
  · have := bytesLE_fromLE bs.reverse
    simp only [Endian.bytes, Endian.value, bytesBE, fromBE]
    rw [List.length_reverse] at this
    rw [this, List.reverse_reverse]

theorem uintN_bytes (e : Endian) (k n : Nat) (r : Bytes) (h : n < 256 ^ k) :
    uintN e k (e.bytes k n ++ r) = .ok n r := by
  have hl : (e.bytes k n).length = k := Endian.length_bytes e k n
  have h1 : ¬ (e.bytes k n ++ r).length < k := by
    rw [List.length_append, hl]; omega
  simp only [uintN, h1, if_false]
  rw [List.take_left' hl, List.drop_left' hl, Endian.value_bytes e k n h]

theorem pow_256_eq (k : Nat) : 2 ^ (8 * k) = 256 ^ k := by
  rw [Nat.pow_mul]

theorem bitsN_bytes (e : Endian) (k : Nat) (v : BitVec (8 * k)) (r : Bytes) :
    bitsN e k (e.bytes k v.toNat ++ r) = .ok v r := by
  have hv : v.toNat < 256 ^ k := by
    have := v.isLt
    rwa [pow_256_eq] at this
  simp only [bitsN, uintN_bytes e k v.toNat r hv, PRes.map_ok, BitVec.ofNat_toNat, BitVec.setWidth_eq]

theorem uintN_ok_inv {e : Endian} {k : Nat} {i : Bytes} {v : Nat} {r : Bytes}
    (h : uintN e k i = .ok v r) :
    k ≤ i.length ∧ r = i.drop k ∧ v = e.value (i.take k) ∧ v < 256 ^ k := by
  unfold uintN at h
  split at h
  · cases h
  · rename_i hlt
    injection h with h1 h2
    have hk : k ≤ i.length := by omega
    refine ⟨hk, h2.symm, h1.symm, ?_⟩
    subst h1
    have := Endian.value_lt e (i.take k)
    rwa [List.length_take, Nat.min_eq_left hk] at this

theorem bitsN_ok_inv {e : Endian} {k : Nat} {i : Bytes} {v : BitVec (8 * k)} {r : Bytes}
    (h : bitsN e k i = .ok v r) :
    k ≤ i.length ∧ r = i.drop k ∧ i.take k = e.bytes k v.toNat := by
  unfold bitsN at h
  cases hu : uintN e k i with
  | ok n r' =>
    rw [hu, PRes.map_ok] at h
    injection h with h1 h2
    obtain ⟨hk, hr, hn, hlt⟩ := uintN_ok_inv hu
    refine ⟨hk, by rw [← h2, hr], ?_⟩
    subst h1
    rw [BitVec.toNat_ofNat, pow_256_eq, Nat.mod_eq_of_lt hlt, hn]
    have := Endian.bytes_value e (i.take k)
    rw [List.length_take, Nat.min_eq_left hk] at this
    exact this.symm
  | incomplete n => rw [hu] at h; cases h
  | error => rw [hu] at h; cases h
  | failure => rw [hu] at h; cases h
  | panic => rw [hu] at h; cases h

/-- the number readers only ever answer `ok` or `incomplete` -/
theorem uintN_total (e : Endian) (k : Nat) (i : Bytes) :
    (∃ v r, uintN e k i = .ok v r) ∨
    (i.length < k ∧ uintN e k i = .incomplete (some (k - i.length))) := by
  unfold uintN
  by_cases h : i.length < k
  · right
    have : k - i.length ≠ 0 := by omega
    simp [h, needed, this]
  · left
    simp [h]

theorem bitsN_total (e : Endian) (k : Nat) (i : Bytes) :
    (∃ v r, bitsN e k i = .ok v r) ∨
    (i.length < k ∧ bitsN e k i = .incomplete (some (k - i.length))) := by
  unfold bitsN
  rcases uintN_total e k i with ⟨v, r, h⟩ | ⟨h1, h2⟩
  · left; rw [h]; exact ⟨_, _, rfl⟩
  · right; rw [h2]; exact ⟨h1, rfl⟩

theorem beU8_ok_inv {i : Bytes} {v : BitVec 8} {r : Bytes} (h : beU8 i = .ok v r) : i = v :: r := by
  cases i with
  | nil => simp [beU8] at h
  | cons b t =>
    simp only [beU8] at h
    injection h with h1 h2
    rw [h1, h2]

theorem beU8_total (i : Bytes) :
    (∃ v r, beU8 i = .ok v r) ∨ (i = [] ∧ beU8 i = .incomplete (some 1)) := by
  cases i with
  | nil => right; simp [beU8, needed]
  | cons b t => left; exact ⟨b, t, rfl⟩

-- take / tag ----------------------------------------------------------------

theorem take_append (b r : Bytes) : take b.length (b ++ r) = .ok b r := by
  have h1 : ¬ (b ++ r).length < b.length := by
    rw [List.length_append]; omega
  simp only [take, h1, if_false]
  rw [List.take_left' rfl, List.drop_left' rfl]

theorem take_append' (n : Nat) (b r : Bytes) (h : b.length = n) : take n (b ++ r) = .ok b r := by
  subst h; exact take_append b r

theorem take_ok_inv {n : Nat} {i v r : Bytes} (h : take n i = .ok v r) :
    n ≤ i.length ∧ v = i.take n ∧ r = i.drop n := by
  unfold take at h
  split at h
  · cases h
  · injection h with h1 h2
    exact ⟨by omega, h1.symm, h2.symm⟩

theorem take_total (n : Nat) (i : Bytes) :
    (n ≤ i.length ∧ take n i = .ok (i.take n) (i.drop n)) ∨
    (i.length < n ∧ take n i = .incomplete (some (n - i.length))) := by
  unfold take
  by_cases h : i.length < n
  · right
    have : n - i.length ≠ 0 := by omega
    simp [h, needed, this]
  · left
    simp only [h, if_false]
    exact ⟨by omega, trivial⟩

theorem tag_append (t r : Bytes) : tag t (t ++ r) = .ok t r := by
  have h1 : ¬ (t ++ r).length < t.length := by
    rw [List.length_append]; omega
  have h2 : (t ++ r).take t.length = t := List.take_left' rfl
  have h3 : t.take (t ++ r).length = t := by
    apply List.take_of_length_le
    rw [List.length_append]; omega
  simp only [tag, h1, h2, h3, bne_self_eq_false, Bool.false_eq_true, if_false]
  rw [List.drop_left' rfl]

theorem tag_ok_inv {t i v r : Bytes} (h : tag t i = .ok v r) : i = t ++ r ∧ v = t := by
  unfold tag at h
  split at h
  · cases h
  · rename_i hne
    split at h
    · cases h
    · rename_i hlt
      injection h with h1 h2
      have hle : t.length ≤ i.length := by omega
      have heq : i.take t.length = t := by
        have : i.take t.length = t.take i.length := by simpa using hne
        rw [this, List.take_of_length_le hle]
      refine ⟨?_, by rw [← h1, heq]⟩
      rw [← h2]
      conv => lhs; rw [← List.take_append_drop t.length i]
      rw [heq]

-- fixed-size NUL-terminated strings --------------------------------------------

theorem length_putZeroTerminatedString (s : Bytes) (n : Nat) (h : s.length ≤ n) :
    (putZeroTerminatedString s n).length = n := by
  simp only [putZeroTerminatedString, List.length_append, List.length_replicate]
  omega

theorem length_takeWhile_le' (q : BitVec 8 → Bool) (s : Bytes) :
    (s.takeWhile q).length ≤ s.length := by
  induction s with
  | nil => simp
  | cons b t ih =>
    simp only [List.takeWhile_cons]
    split
    · simp only [List.length_cons]; omega
    · simp

theorem of_mem_takeWhile (q : BitVec 8 → Bool) (s : Bytes) (b : BitVec 8)
    (h : b ∈ s.takeWhile q) : q b = true := by
  induction s with
  | nil => simp at h
  | cons c t ih =>
    simp only [List.takeWhile_cons] at h
    split at h
    · rename_i hc
      rcases List.mem_cons.1 h with h | h
      · rw [h]; exact hc
      · exact ih h
    · simp at h

theorem takeWhile_notNul_of_noNul (s : Bytes) (h : noNul s = true) :
    s.takeWhile (fun b => !isNul b) = s := by
  induction s with
  | nil => rfl
  | cons b u ih =>
    simp only [noNul, List.all_cons, Bool.and_eq_true] at h
    have hb : (!isNul b) = true := by simpa [isNul] using h.1
    simp only [List.takeWhile_cons, hb, if_true]
    rw [ih (by simpa [noNul] using h.2)]

theorem takeWhile_notNul_append_nul (s t : Bytes) (h : noNul s = true) :
    (s ++ 0#8 :: t).takeWhile (fun b => !isNul b) = s := by
  induction s with
  | nil => simp [isNul]
  | cons b u ih =>
    simp only [noNul, List.all_cons, Bool.and_eq_true] at h
    have hb : (!isNul b) = true := by simpa [isNul] using h.1
    simp only [List.cons_append, List.takeWhile_cons, hb, if_true]
    rw [ih (by simpa [noNul] using h.2)]

theorem takeWhile_notNul_append_replicate (s : Bytes) (m : Nat) (h : noNul s = true) :
    (s ++ List.replicate m 0#8).takeWhile (fun b => !isNul b) = s := by
  cases m with
  | zero => simpa using takeWhile_notNul_of_noNul s h
  | succ m => rw [List.replicate_succ]; exact takeWhile_notNul_append_nul s _ h

/-- a NUL-free valid string written into a padded field of `n >= length` bytes reads back -/
theorem zts_padded (n : Nat) (s r : Bytes) (h1 : noNul s = true) (h2 : Utf8.valid s = true)
    (h3 : s.length ≤ n) : zts n (putZeroTerminatedString s n ++ r) = .ok s r := by
  have hl := length_putZeroTerminatedString s n h3
  rw [zts_ok n _ (by rw [List.length_append, hl]; omega), List.take_left' hl, List.drop_left' hl]
  unfold putZeroTerminatedString
  rw [takeWhile_notNul_append_replicate s _ h1, Utf8.validPrefix_of_valid s h2]

/-- a NUL-free valid string followed by its terminator reads back with size `length + 1` -/
theorem zts_terminated (s r : Bytes) (h1 : noNul s = true) (h2 : Utf8.valid s = true) :
    zts (s.length + 1) (s ++ 0#8 :: r) = .ok s r := by
  have he : s ++ 0#8 :: r = (s ++ [0#8]) ++ r := by simp
  have hl : (s ++ [0#8]).length = s.length + 1 := by simp
  rw [he, zts_ok _ _ (by rw [List.length_append, hl]; omega), List.take_left' hl,
    List.drop_left' hl, takeWhile_notNul_append_nul s [] h1, Utf8.validPrefix_of_valid s h2]

theorem zts_ok_inv {n : Nat} {i v r : Bytes} (h : zts n i = .ok v r) :
    n ≤ i.length ∧ r = i.drop n
      ∧ v = Utf8.validPrefix ((i.take n).takeWhile (fun b => !isNul b)) := by
  by_cases hn : n ≤ i.length
  · rw [zts_ok n i hn] at h
    injection h with h1 h2
    exact ⟨hn, h2.symm, h1.symm⟩
  · obtain ⟨hint, hh, _⟩ := zts_short n i (by omega)
    rw [hh] at h
    cases h

/-- what `zts` returns is NUL-free, valid UTF-8 and at most `n` bytes long -/
theorem zts_ok_value {n : Nat} {i v r : Bytes} (h : zts n i = .ok v r) :
    noNul v = true ∧ Utf8.valid v = true ∧ v.length ≤ n := by
  obtain ⟨hn, _, hv⟩ := zts_ok_inv h
  subst hv
  refine ⟨?_, Utf8.valid_validPrefix _, ?_⟩
  · simp only [noNul, List.all_eq_true, Utf8.validPrefix]
    intro b hb
    have hb' := List.mem_of_mem_take hb
    have := of_mem_takeWhile _ _ _ hb'
    simpa [isNul] using this
  · simp only [Utf8.validPrefix, List.length_take]
    have h1 := Utf8.validUpTo_le ((i.take n).takeWhile (fun b => !isNul b))
    have h2 : ((i.take n).takeWhile (fun b => !isNul b)).length ≤ (i.take n).length :=
      length_takeWhile_le' _ _
    rw [List.length_take] at h2
    omega

theorem zts_total (n : Nat) (s : Bytes) :
    (n ≤ s.length ∧ ∃ v, zts n s = .ok v (s.drop n)) ∨
    (s.length < n ∧ ∃ hint, zts n s = .incomplete hint ∧ ∀ k, hint = some k → 1 ≤ k ∧ k ≤ n - s.length) := by
  by_cases hn : n ≤ s.length
  · left; exact ⟨hn, _, zts_ok n s hn⟩
  · right; exact ⟨by omega, zts_short n s (by omega)⟩

end Dlt
