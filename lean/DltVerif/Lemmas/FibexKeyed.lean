/-
  C11: the map keyed by (context id, application id, frame id) — first definition wins,
  generic lookup lemmas for `firstPerKey` over any key type.
-/
import DltVerif.Lemmas.FibexOrder

namespace Dlt.Fibex
open Dlt.Fibex.Spec

/-- first entry with the key -/
def lookupK {κ α : Type} [DecidableEq κ] (m : List (κ × α)) (k : κ) : Option α :=
  (m.find? (·.1 == k)).map (·.2)

theorem lookupK_cons {κ α : Type} [DecidableEq κ] (e : κ × α) (m : List (κ × α)) (k : κ) :
    lookupK (e :: m) k = if e.1 = k then some e.2 else lookupK m k := by
  unfold lookupK
  rw [List.find?_cons]
  split <;> simp_all

theorem lookupK_append {κ α : Type} [DecidableEq κ] (m n : List (κ × α)) (k : κ) :
    lookupK (m ++ n) k = (lookupK m k).or (lookupK n k) := by
  induction m with
  | nil => simp [lookupK]
  | cons e m ih =>
    rw [List.cons_append, lookupK_cons, lookupK_cons, ih]
    split <;> simp

theorem anyK_iff {κ α : Type} [DecidableEq κ] (m : List (κ × α)) (k : κ) :
    m.any (·.1 == k) = (lookupK m k).isSome := by
  induction m with
  | nil => rfl
  | cons e m ih =>
    rw [List.any_cons, lookupK_cons, ih]
    split <;> simp_all

theorem lookupK_firstPerKey {κ α : Type} [DecidableEq κ] (l acc : List (κ × α)) (k : κ) :
    lookupK (firstPerKey l acc) k = (lookupK acc k).or (lookupK l k) := by
  induction l generalizing acc with
  | nil => simp [firstPerKey, lookupK]
  | cons e l ih =>
    obtain ⟨k0, v⟩ := e
    rw [firstPerKey_cons]
    split
    · rename_i hany
      rw [ih, lookupK_cons]
      rw [anyK_iff] at hany
      by_cases hk : k0 = k
      · subst hk
        obtain ⟨x, hx⟩ := Option.isSome_iff_exists.mp hany
        simp [hx]
      · simp [hk]
    · rename_i hany
      rw [ih, lookupK_append, lookupK_cons, lookupK_cons]
      by_cases hk : k0 = k
      · subst hk; cases lookupK acc k0 <;> simp [lookupK]
      · simp [hk, lookupK]

/-- the ids a frame's metadata carries are those of its manufacturer extension -/
theorem frameMeta_ids (es : List Elem) (f : FrameDoc) (m : FrameMetadata)
    (h : frameMeta es f = some m) :
    m.contextId = f.ext.bind (·.contextId) ∧ m.applicationId = f.ext.bind (·.applicationId) := by
  unfold frameMeta at h
  simp only at h
  split at h
  · cases h; exact ⟨rfl, rfl⟩
  · cases h

/-- does the frame carry this key? -/
def hasKey (key : FrameKey) (f : FrameDoc) : Bool :=
  decide (f.id = key.frameId) && decide (f.ext.bind (·.contextId) = some key.contextId)
    && decide (f.ext.bind (·.applicationId) = some key.appId)

def keyedOf (e : Bytes × FrameMetadata) : Option (FrameKey × FrameMetadata) :=
  match e.2.contextId, e.2.applicationId with
  | some ctx, some app => some (({ contextId := ctx, appId := app, frameId := e.1 } : FrameKey), e.2)
  | _, _ => none

theorem lookupK_keyed (es : List Elem) (frames : List FrameDoc)
    (hall : frames.all (fun f => (frameMeta es f).isSome) = true) (key : FrameKey) :
    lookupK ((frames.filterMap fun f => (frameMeta es f).map fun m => (f.id, m)).filterMap keyedOf) key
      = (frames.find? (hasKey key)).bind (frameMeta es) := by
  induction frames with
  | nil => rfl
  | cons f frames ih =>
    simp only [List.all_cons, Bool.and_eq_true] at hall
    obtain ⟨m, hm⟩ := Option.isSome_iff_exists.mp hall.1
    obtain ⟨hc, ha⟩ := frameMeta_ids es f m hm
    rw [List.filterMap_cons]
    simp only [hm, Option.map_some]
    rw [List.filterMap_cons, List.find?_cons]
    unfold keyedOf hasKey
    simp only
    rw [hc, ha]
    cases hctx : f.ext.bind (·.contextId) with
    | none =>
      simp only [reduceCtorEq, decide_false, Bool.and_false, Bool.false_and]
      exact ih hall.2
    | some ctx =>
      cases happ : f.ext.bind (·.applicationId) with
      | none =>
        simp only [reduceCtorEq, decide_false, Bool.and_false]
        exact ih hall.2
      | some app =>
        simp only [Option.some.injEq]
        rw [lookupK_cons]
        by_cases hk : ({ contextId := ctx, appId := app, frameId := f.id } : FrameKey) = key
        · subst hk
          simp [hm]
        · rw [if_neg hk]
          have : (decide (f.id = key.frameId) && decide (ctx = key.contextId)
              && decide (app = key.appId)) = false := by
            rcases key with ⟨kc, ka, kf⟩
            simp only [FrameKey.mk.injEq, not_and] at hk
            by_cases h1 : f.id = kf
            · by_cases h2 : ctx = kc
              · have := hk h2
                by_cases h3 : app = ka
                · exact absurd h1 (this h3)
                · simp [h3]
              · simp [h2]
            · simp [h1]
          rw [this]
          exact ih hall.2

theorem hasKey_id (key : FrameKey) (f : FrameDoc) (h : hasKey key f = true) : f.id = key.frameId := by
  unfold hasKey at h
  simp only [Bool.and_eq_true, decide_eq_true_eq] at h
  exact h.1.1

/-- with pairwise distinct frame ids the frame carrying a key is found through its id -/
theorem find?_hasKey (key : FrameKey) (l : List FrameDoc) (hn : (l.map (·.id)).Nodup) :
    l.find? (hasKey key) = (l.find? (fun f => f.id == key.frameId)).filter (hasKey key) := by
  induction l with
  | nil => rfl
  | cons f l ih =>
    rw [List.map_cons, List.nodup_cons] at hn
    rw [List.find?_cons, List.find?_cons]
    by_cases hid : f.id = key.frameId
    · have hb : (f.id == key.frameId) = true := by simpa using hid
      rw [hb]
      simp only [Option.filter]
      cases hk : hasKey key f with
      | true => rfl
      | false =>
        -- no other frame has this id
        simp only [Bool.false_eq_true, if_false]
        rw [List.find?_eq_none]
        intro g hg hgk
        have := hasKey_id key g hgk
        apply hn.1
        rw [hid, ← this]
        exact List.mem_map_of_mem hg
    · have hb : (f.id == key.frameId) = false := by simpa using hid
      have hk : hasKey key f = false := by
        cases h : hasKey key f with
        | false => rfl
        | true => exact absurd (hasKey_id key f h) hid
      rw [hb, hk]
      exact ih hn.2

end Dlt.Fibex
