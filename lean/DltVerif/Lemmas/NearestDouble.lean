/-
  C18: the value-level IEEE definition of rounding in Spec/Fixed.lean (`nearestDouble`) and the
  significand / exponent rounding of the model (`round53`) denote the same number, and
  rounding commutes with scaling by a power of two.
-/
import DltVerif.Lemmas.Round53
import DltVerif.Spec.Fixed

namespace Dlt
open Dlt.Spec

theorem bits_eq_bitLen (n : Nat) : Spec.bits n = bitLen n := rfl

/-- the shape of `nearestDouble` once the unit is known -/
theorem nearestDouble_unit (n k : Nat) (hk : Spec.bits n - 53 = k) :
    nearestDouble n =
      (if n - n / 2 ^ k * 2 ^ k < n / 2 ^ k * 2 ^ k + 2 ^ k - n then n / 2 ^ k * 2 ^ k
       else if n / 2 ^ k * 2 ^ k + 2 ^ k - n < n - n / 2 ^ k * 2 ^ k then n / 2 ^ k * 2 ^ k + 2 ^ k
       else if (n / 2 ^ k * 2 ^ k / 2 ^ k) % 2 = 0 then n / 2 ^ k * 2 ^ k
       else n / 2 ^ k * 2 ^ k + 2 ^ k) := by
  unfold nearestDouble
  simp only [hk]

/-- a multiple of the unit is a double: it is its own rounding -/
theorem nearestDouble_of_dvd (n k : Nat) (hk : Spec.bits n - 53 = k) (hd : n % 2 ^ k = 0) :
    nearestDouble n = n := by
  rw [nearestDouble_unit n k hk]
  have hp : 0 < 2 ^ k := Nat.pow_pos (by omega)
  have hn : n / 2 ^ k * 2 ^ k = n := by
    have := Nat.div_add_mod n (2 ^ k)
    rw [hd, Nat.add_zero, Nat.mul_comm] at this
    exact this
  rw [hn]
  rw [if_pos (by omega)]

theorem nearestDouble_small (n : Nat) (h : bitLen n ≤ 53) : nearestDouble n = n :=
  nearestDouble_of_dvd n 0 (by rw [bits_eq_bitLen]; omega) (by simp [Nat.mod_one])

/-- the model's rounding denotes the value the IEEE definition prescribes -/
theorem round53_value (m : Nat) (e : Int) :
    ∃ k q : Nat, round53 m e = (q, e + (k : Int)) ∧ q * 2 ^ k = nearestDouble m := by
  unfold round53
  by_cases hl : bitLen m ≤ 53
  · refine ⟨0, m, by simp [hl], ?_⟩
    rw [nearestDouble_small m hl]; simp
  · simp only [hl, if_false]
    generalize hk : bitLen m - 53 = k
    have hk1 : 1 ≤ k := by omega
    refine ⟨k, _, rfl, ?_⟩
    rw [nearestDouble_unit m k (by rw [bits_eq_bitLen]; exact hk)]
    have hp : 0 < 2 ^ k := Nat.pow_pos (by omega)
    have hu : 2 ^ k = 2 * 2 ^ (k - 1) := by
      obtain ⟨d, rfl⟩ : ∃ d, k = d + 1 := ⟨k - 1, by omega⟩
      rw [Nat.pow_succ, Nat.add_sub_cancel, Nat.mul_comm]
    have hdm := Nat.div_add_mod m (2 ^ k)
    have hr := Nat.mod_lt m hp
    rw [Nat.shiftRight_eq_div_pow, Nat.mul_div_cancel _ hp]
    rw [Nat.mul_comm] at hdm
    generalize m / 2 ^ k = q0 at *
    generalize m % 2 ^ k = r at *
    generalize hh : 2 ^ (k - 1) = half at *
    generalize 2 ^ k = u at *
    have hq : (q0 + 1) * u = q0 * u + u := by rw [Nat.add_mul, Nat.one_mul]
    by_cases c1 : r > half ∨ (r = half ∧ q0 % 2 = 1)
    · rw [if_pos c1, hq]
      rcases c1 with c | ⟨c, codd⟩
      · rw [if_neg (by omega), if_pos (by omega)]
      · rw [if_neg (by omega), if_neg (by omega), if_neg (by omega)]
    · rw [if_neg c1]
      by_cases c2 : r < half
      · rw [if_pos (by omega)]
      · have : r = half ∧ q0 % 2 = 0 := by omega
        rw [if_neg (by omega), if_neg (by omega), if_pos this.2]

theorem bitLen_pos (a : Nat) (ha : a ≠ 0) : 1 ≤ bitLen a := by
  have := (bitLen_bounds a ha).2
  rcases Nat.eq_zero_or_pos (bitLen a) with h | h
  · rw [h] at this; omega
  · exact h

theorem bitLen_mul_pow (a j : Nat) (ha : a ≠ 0) : bitLen (a * 2 ^ j) = bitLen a + j := by
  have hP : 0 < 2 ^ j := Nat.pow_pos (by omega)
  have hne : a * 2 ^ j ≠ 0 := Nat.mul_ne_zero ha (by omega)
  obtain ⟨l1, l2⟩ := bitLen_bounds a ha
  obtain ⟨m1, m2⟩ := bitLen_bounds (a * 2 ^ j) hne
  have hl := bitLen_pos a ha
  have hm := bitLen_pos _ hne
  -- 2^(l-1+j) ≤ a * 2^j < 2^(l+j)
  have u1 : 2 ^ (bitLen a - 1 + j) ≤ a * 2 ^ j := by
    rw [Nat.pow_add]; exact Nat.mul_le_mul_right _ l1
  have u2 : a * 2 ^ j < 2 ^ (bitLen a + j) := by
    rw [Nat.pow_add]; exact Nat.mul_lt_mul_of_pos_right l2 hP
  have c1 : 2 ^ (bitLen (a * 2 ^ j) - 1) < 2 ^ (bitLen a + j) := Nat.lt_of_le_of_lt m1 u2
  have c2 : 2 ^ (bitLen a - 1 + j) < 2 ^ bitLen (a * 2 ^ j) := Nat.lt_of_le_of_lt u1 m2
  have d1 := (Nat.pow_lt_pow_iff_right (by omega : 1 < 2)).mp c1
  have d2 := (Nat.pow_lt_pow_iff_right (by omega : 1 < 2)).mp c2
  omega

/-- rounding commutes with scaling by a power of two (no exponent limits) -/
theorem nearestDouble_scale (a j : Nat) : nearestDouble (a * 2 ^ j) = nearestDouble a * 2 ^ j := by
  by_cases ha : a = 0
  · subst ha
    simp [nearestDouble_small 0 (by decide)]
  have hP : 0 < 2 ^ j := Nat.pow_pos (by omega)
  have hbl := bitLen_mul_pow a j ha
  by_cases hs : bitLen a ≤ 53
  · rw [nearestDouble_small a hs]
    apply nearestDouble_of_dvd _ (bitLen a + j - 53) (by rw [bits_eq_bitLen, hbl])
    have hle : bitLen a + j - 53 ≤ j := by omega
    have hd : 2 ^ (bitLen a + j - 53) ∣ a * 2 ^ j :=
      Nat.dvd_trans (Nat.pow_dvd_pow 2 hle) (Nat.dvd_mul_left _ _)
    exact Nat.mod_eq_zero_of_dvd hd
  · generalize hk : bitLen a - 53 = k
    have hk' : Spec.bits (a * 2 ^ j) - 53 = k + j := by rw [bits_eq_bitLen, hbl]; omega
    rw [nearestDouble_unit _ _ hk', nearestDouble_unit a k (by rw [bits_eq_bitLen]; exact hk)]
    have hp : 0 < 2 ^ k := Nat.pow_pos (by omega)
    have hdm := Nat.div_add_mod a (2 ^ k)
    have hr := Nat.mod_lt a hp
    rw [Nat.mul_comm] at hdm
    have hq : a * 2 ^ j / 2 ^ (k + j) = a / 2 ^ k := by
      rw [Nat.pow_add, Nat.mul_div_mul_right _ _ hP]
    rw [hq, Nat.mul_div_cancel _ hp, Nat.mul_div_cancel _ (Nat.pow_pos (by omega) : 0 < 2 ^ (k + j)),
      Nat.pow_add]
    generalize a / 2 ^ k = q0 at *
    generalize a % 2 ^ k = r at *
    generalize 2 ^ k = u at *
    generalize 2 ^ j = P at *
    subst hdm
    -- atoms: A = q0 * (u * P), B = r * P, C = u * P
    have e1 : (q0 * u + r) * P = q0 * (u * P) + r * P := by
      rw [Nat.add_mul, Nat.mul_assoc]
    have e2 : (q0 * u + u) * P = q0 * (u * P) + u * P := by
      rw [Nat.add_mul, Nat.mul_assoc]
    have e3 : q0 * u * P = q0 * (u * P) := Nat.mul_assoc _ _ _
    rw [e1]
    generalize hA : q0 * (u * P) = A at *
    generalize hB : r * P = B at *
    generalize hC : u * P = C at *
    generalize hD : q0 * u = D at *
    have hBC : B < C := by
      rw [← hB, ← hC]; exact Nat.mul_lt_mul_of_pos_right hr hP
    rcases Nat.lt_trichotomy (2 * r) u with c | c | c
    · have hc : 2 * B < C := by
        rw [← hB, ← hC, ← Nat.mul_assoc]; exact Nat.mul_lt_mul_of_pos_right c hP
      have l1 : A + B - A < A + C - (A + B) := by omega
      have r1 : D + r - D < D + u - (D + r) := by omega
      rw [if_pos l1, if_pos r1, e3]
    · have hc : 2 * B = C := by rw [← hB, ← hC, ← Nat.mul_assoc, c]
      have l1 : ¬ (A + B - A < A + C - (A + B)) := by omega
      have l2 : ¬ (A + C - (A + B) < A + B - A) := by omega
      have r1 : ¬ (D + r - D < D + u - (D + r)) := by omega
      have r2 : ¬ (D + u - (D + r) < D + r - D) := by omega
      rw [if_neg l1, if_neg l2, if_neg r1, if_neg r2]
      by_cases hpar : q0 % 2 = 0
      · rw [if_pos hpar, if_pos hpar, e3]
      · rw [if_neg hpar, if_neg hpar, e2]
    · have hc : C < 2 * B := by
        rw [← hB, ← hC, ← Nat.mul_assoc]; exact Nat.mul_lt_mul_of_pos_right c hP
      have l1 : ¬ (A + B - A < A + C - (A + B)) := by omega
      have l2 : A + C - (A + B) < A + B - A := by omega
      have r1 : ¬ (D + r - D < D + u - (D + r)) := by omega
      have r2 : D + u - (D + r) < D + r - D := by omega
      rw [if_neg l1, if_pos l2, if_neg r1, if_pos r2, e2]

end Dlt
