/-
  FIBEX operations of the line protocol (C11, C12).
-/
import Driver.Wire
import DltVerif.Model.Fibex
import DltVerif.Spec.Fibex

namespace Dlt.FibexOps
open Dlt.Wire Dlt.Fibex

def tag : P Tag := do
  match (← tok) with
  | "PDU" => pure .PDU | "SHORT-NAME" => pure .SHORT_NAME | "BYTE-LENGTH" => pure .BYTE_LENGTH
  | "SIGNAL-INSTANCE" => pure .SIGNAL_INSTANCE | "SEQUENCE-NUMBER" => pure .SEQUENCE_NUMBER
  | "SIGNAL-REF" => pure .SIGNAL_REF | "PDU-TYPE" => pure .PDU_TYPE | "FRAME-TYPE" => pure .FRAME_TYPE
  | "FRAME" => pure .FRAME | "PDU-INSTANCE" => pure .PDU_INSTANCE | "PDU-REF" => pure .PDU_REF
  | "MANUFACTURER-EXTENSION" => pure .MANUFACTURER_EXTENSION | "APPLICATION_ID" => pure .APPLICATION_ID
  | "CONTEXT_ID" => pure .CONTEXT_ID | "MESSAGE_INFO" => pure .MESSAGE_INFO
  | "MESSAGE_TYPE" => pure .MESSAGE_TYPE | "DESC" => pure .DESC | "CODING" => pure .CODING
  | "SIGNAL" => pure .SIGNAL | "CODED-TYPE" => pure .CODED_TYPE | "CODING-REF" => pure .CODING_REF
  | "other" => pure .other
  | t => throw s!"bad tag {t}"

def attr : P Attr := do
  match (← tok) with
  | "AE" => pure .err
  | "A" => do let k ← bytes; let v ← opt bytes; pure (.ok k v)
  | t => throw s!"bad attr {t}"

def attrs : P (List Attr) := do let n ← nat; many attr n

def xmlEv : P XmlEv := do
  match (← tok) with
  | "S" => do let t ← tag; let a ← attrs; pure (.start t a)
  | "E" => do let t ← tag; let a ← attrs; pure (.empty t a)
  | "X" => do let t ← tag; pure (.end_ t)
  | "T" => do let t ← opt bytes; pure (.text t)
  | "O" => pure .other
  | "R" => pure .err
  | t => throw s!"bad xml event {t}"

def events : P (List XmlEv) := do let n ← nat; many xmlEv n

/-- a file: `-` cannot be opened; `+ x<xml>` (its events follow after `EV`) -/
def fileMark : P Bool := do
  match (← tok) with
  | "-" => pure false
  | "+" => do let _ ← bytes; pure true
  | t => throw s!"bad file marker {t}"

def expectEV : P Unit := do
  match (← tok) with
  | "EV" => pure ()
  | t => throw s!"expected EV, got {t}"

def fileEvents : List Bool → P (List (Option (List XmlEv)))
  | [] => pure []
  | false :: rest => do let r ← fileEvents rest; pure (none :: r)
  | true :: rest => do let e ← events; let r ← fileEvents rest; pure (some e :: r)

def lookup : P (Nat × Option (Bytes × Bytes)) := do
  let id ← nat
  let e ← opt (do let app ← bytes; let ctx ← bytes; pure (app, ctx))
  pure (id, e)

def lookups : P (List (Nat × Option (Bytes × Bytes))) := do let n ← nat; many lookup n

-- documents

def inst : P Spec.Inst := do
  let id ← bytes; let seq ← nat; let r ← bytes; let rf ← bool
  pure { id := id, seq := seq, ref := r, refFirst := rf }

def insts : P (List Spec.Inst) := do let n ← nat; many inst n

def elem : P Spec.Elem := do
  match (← tok) with
  | "P" => do
    let id ← bytes; let sn ← opt bytes; let d ← opt bytes; let bl ← nat; let s ← insts
    pure (.pdu { id := id, shortName := sn, desc := d, byteLength := bl, signals := s })
  | "F" => do
    let id ← bytes; let sn ← bytes; let d ← opt bytes; let bl ← nat; let p ← insts
    let x ← opt (do
      let mt ← opt bytes; let mi ← opt bytes; let app ← opt bytes; let ctx ← opt bytes
      pure ({ messageType := mt, messageInfo := mi, applicationId := app, contextId := ctx } : Spec.ExtDoc))
    pure (.frame { id := id, shortName := sn, desc := d, byteLength := bl, pdus := p, ext := x })
  | "S" => do let id ← bytes; let c ← bytes; pure (.signal id c)
  | "C" => do let id ← bytes; let b ← bytes; pure (.coding id b)
  | t => throw s!"bad element {t}"

def doc : P Spec.FileDoc := do let n ← nat; many elem n

-- printing

def pPdu (p : PduMetadata) : String :=
  s!"{pOpt pBytes p.description} {p.signalTypes.length}"
    ++ String.join (p.signalTypes.map fun t => " " ++ pTypeInfo t)

def pFrame (f : FrameMetadata) : String :=
  s!"{pBytes f.shortName} {pOpt pBytes f.applicationId} {pOpt pBytes f.contextId} {pOpt pBytes f.messageType} {pOpt pBytes f.messageInfo} {f.pdus.length}"
    ++ String.join (f.pdus.map fun p => " " ++ pPdu p)

def bytesCmp : Bytes → Bytes → Ordering
  | [], [] => .eq
  | [], _ :: _ => .lt
  | _ :: _, [] => .gt
  | a :: as, b :: bs => if a.toNat < b.toNat then .lt else if a.toNat > b.toNat then .gt else bytesCmp as bs

def keyLt (a b : FrameKey) : Bool :=
  match bytesCmp a.contextId b.contextId with
  | .lt => true
  | .gt => false
  | .eq =>
    match bytesCmp a.appId b.appId with
    | .lt => true
    | .gt => false
    | .eq => bytesCmp a.frameId b.frameId == .lt

def insertBy {α : Type} (lt : α → α → Bool) (x : α) : List α → List α
  | [] => [x]
  | y :: ys => if lt x y then x :: y :: ys else y :: insertBy lt x ys

def sortBy {α : Type} (lt : α → α → Bool) (l : List α) : List α := l.foldl (fun acc x => insertBy lt x acc) []

def pMeta (md : FibexMetadata) : String :=
  let ks := sortBy (fun a b => keyLt a.1 b.1) md.frameMapWithKey
  let is := sortBy (fun (a b : Bytes × FrameMetadata) => bytesCmp a.1 b.1 == .lt) md.frameMap
  s!"MD K {ks.length}"
    ++ String.join (ks.map fun (k, f) => s!" {pBytes k.contextId} {pBytes k.appId} {pBytes k.frameId} {pFrame f}")
    ++ s!" I {is.length}" ++ String.join (is.map fun (id, f) => s!" {pBytes id} {pFrame f}")

def pLookups (md : FibexMetadata) (ls : List (Nat × Option (Bytes × Bytes))) : String :=
  " | L" ++ String.join (ls.map fun (id, e) =>
    match extractMetadata md id e with
    | some f => s!" + {pBytes f.shortName} {f.pdus.length}"
    | none => " -")

def pLoad (r : Res (Option FibexMetadata)) (ls : List (Nat × Option (Bytes × Bytes))) : String :=
  match r with
  | .ok (some md) => pMeta md ++ pLookups md ls
  | .ok none => "none"
  | .err => "none"
  | .panic => "PANIC"

def fibex : P String := do
  let n ← nat
  let marks ← many fileMark n
  let ls ← lookups
  expectEV
  let files ← fileEvents marks
  pure (pLoad (gatherFibexData files) ls)

def fibexDoc : P String := do
  let flag ← tok
  let n ← nat
  let docs ← many (do let d ← doc; let _ ← bytes; pure d) n
  let ls ← lookups
  expectEV
  let evss ← many events n
  let files := evss.map some
  let renderOk := flag == "p" || (docs.zip evss).all fun (d, evs) => Spec.render d == evs
  let spec := if docs.isEmpty then "none" else
    match Spec.model docs with
    | some md => pMeta md ++ pLookups md ls
    | none => "none"
  pure (pLoad (gatherFibexData files) ls ++ " @@ spec=" ++ spec ++ " @@ render=" ++ (if renderOk then "ok" else "DIFF"))

end Dlt.FibexOps
