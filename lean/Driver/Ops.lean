/-
  The operations of the line protocol.  One request line in, one answer line out:
      <answer>[ @@ spec=<answer the Spec expects>]
  `answer` is computed by the code-shaped Model (compared with the crate: CORR),
  `spec` by the property-shaped Spec (the oracle for the crate's answer).
-/
import Driver.Wire
import DltVerif.Model.Time
import DltVerif.Model.Fixed

namespace Dlt.Ops
open Dlt.Wire

def run {α : Type} (p : P α) (toks : List String) : Except String α :=
  match p.run toks with
  | .ok (v, []) => .ok v
  | .ok (_, t :: _) => .error s!"trailing token {t}"
  | .error e => .error e

def pTime : Option (Nat × Nat) → String
  | some (s, us) => s!"{s} {us}"
  | none => "PANIC"

def pOptNat : Option Nat → String
  | some n => s!"some {n}"
  | none => "none"

/-- decode an HTYP byte the way `dlt_standard_header` does and re-encode it the way
    `header_type_byte` does -/
def htyp (b : BitVec 8) : String :=
  let ver := (b >>> 5) &&& 0b111#8
  let e : Endian := if b &&& BIG_ENDIAN_FLAG != 0#8 then .big else .little
  let ext := b &&& WITH_EXTENDED_HEADER_FLAG != 0#8
  let ecu := b &&& WITH_ECU_ID_FLAG != 0#8
  let sid := b &&& WITH_SESSION_ID_FLAG != 0#8
  let tms := b &&& WITH_TIMESTAMP_FLAG != 0#8
  let re := standardHeaderType ext e ecu sid tms ver
  s!"{ver.toNat} {pEndian e} {pBool ext} {pBool ecu} {pBool sid} {pBool tms} hl={calculateAllHeadersLength b} re={re.toNat}"

def msin (b : BitVec 8) : String :=
  let mt := MessageType.ofMsin b
  let verbose := b &&& VERBOSE_FLAG != 0#8
  let re := mt.toU8 ||| (if verbose then 1#8 else 0#8)
  s!"{pBool verbose} {pMessageType mt} re={re.toNat}"

def ti (w : BitVec 32) : String :=
  match TypeInfo.ofU32 w with
  | none => "none"
  | some t =>
    let re := t.toU32
    s!"{pTypeInfo t} re={re.toNat} le={pBytes (t.asBytes .little)} be={pBytes (t.asBytes .big)}"

def pZts : PRes Bytes → String
  | .ok s rest => s!"OK {pBytes s} rest={rest.length}"
  | .incomplete n => s!"ERR INCOMPLETE {pNeeded n}"
  | .error => "ERR HICKUP"
  | .failure => "ERR UNRECOVERABLE"
  | .panic => "PANIC"

def pEnc (m : Message) : String :=
  if m.asBytesPanics then "PANIC" else s!"{pBytes m.asBytes} blen={m.byteLen}"

def dispatch (op : String) (args : List String) : Except String String :=
  match op with
  | "FROMMS" => do let n ← run nat args; pure (pTime (fromMs n))
  | "FROMUS" => do let n ← run nat args; pure (pTime (fromUs n))
  | "REAL" => do let a ← run argument args; pure (pOptNat a.toRealValue)
  | "HTYP" => do let b ← run (bv 8) args; pure (htyp b)
  | "MSIN" => do let b ← run (bv 8) args; pure (msin b)
  | "TI" => do let w ← run (bv 32) args; pure (ti w)
  | "ZTS" => do
    let (n, s) ← run (do let n ← nat; let s ← bytes; pure (n, s)) args
    pure (pZts (zts n s))
  | "ENC" => do let m ← run message args; pure (pEnc m)
  | "PARSE" => do
    let (w, f, bs) ← run (do let w ← bool; let f ← opt filter; let b ← bytes; pure (w, f, b)) args
    pure (pParseResult (dltMessage bs f w))
  | _ => .error s!"unknown op {op}"

def handleLine (line : String) : String :=
  match (line.trimAscii.toString.splitOn " ").filter (· ≠ "") with
  | [] => "BADREQ empty"
  | op :: args =>
    match dispatch op args with
    | .ok s => s
    | .error e => s!"BADREQ {e}"

end Dlt.Ops
