/-
  The operations of the line protocol.  One request line in, one answer line out:
      <answer>[ @@ spec=<answer the Spec expects>]
  `answer` is computed by the code-shaped Model (compared with the crate: CORR),
  `spec` by the property-shaped Spec (the oracle for the crate's answer).
-/
import Driver.Wire
import Driver.FibexOps
import DltVerif.Model.Time
import DltVerif.Model.Fixed
import DltVerif.Spec.Layout
import DltVerif.Spec.NonVerbose
import DltVerif.Spec.WF
import DltVerif.Spec.Reader
import DltVerif.Spec.Stats
import DltVerif.Spec.Zts
import DltVerif.Spec.TypeInfo
import DltVerif.Spec.Fixed
import DltVerif.Spec.Codec

namespace Dlt.Ops
open Dlt.Wire

def run {α : Type} (p : P α) (toks : List String) : Except String α :=
  match p.run toks with
  | .ok (v, []) => .ok v
  | .ok (_, t :: _) => .error s!"trailing token {t}"
  | .error e => .error e

def pTime : Option (Nat × Nat) → String
  | some (s, us) => s!"{s} {us}"
  | none => "PANIC"

def pOptNat : Option Nat → String
  | some n => s!"some {n}"
  | none => "none"

/-- decode an HTYP byte the way `dlt_standard_header` does and re-encode it the way
    `header_type_byte` does -/
def htyp (b : BitVec 8) : String :=
  let ver := (b >>> 5) &&& 0b111#8
  let e : Endian := if b &&& BIG_ENDIAN_FLAG != 0#8 then .big else .little
  let ext := b &&& WITH_EXTENDED_HEADER_FLAG != 0#8
  let ecu := b &&& WITH_ECU_ID_FLAG != 0#8
  let sid := b &&& WITH_SESSION_ID_FLAG != 0#8
  let tms := b &&& WITH_TIMESTAMP_FLAG != 0#8
  let re := standardHeaderType ext e ecu sid tms ver
  s!"{ver.toNat} {pEndian e} {pBool ext} {pBool ecu} {pBool sid} {pBool tms} hl={calculateAllHeadersLength b} re={re.toNat}"

def msin (b : BitVec 8) : String :=
  let mt := MessageType.ofMsin b
  let verbose := b &&& VERBOSE_FLAG != 0#8
  let re := mt.toU8 ||| (if verbose then 1#8 else 0#8)
  s!"{pBool verbose} {pMessageType mt} re={re.toNat}"

def ti (w : BitVec 32) : String :=
  match TypeInfo.ofU32 w with
  | none => "none"
  | some t =>
    let re := t.toU32
    s!"{pTypeInfo t} re={re.toNat} le={pBytes (t.asBytes .little)} be={pBytes (t.asBytes .big)}"

def pZts : PRes Bytes → String
  | .ok s rest => s!"OK {pBytes s} rest={rest.length}"
  | .incomplete n => s!"ERR INCOMPLETE {pNeeded n}"
  | .error => "ERR HICKUP"
  | .failure => "ERR UNRECOVERABLE"
  | .panic => "PANIC"

/-- what the Spec expects of a fixed-size field (long inputs are left to CORR: the Spec's
    longest-valid-prefix search is quadratic) -/
def pZtsSpec (n : Nat) (s : Bytes) : String :=
  if n ≤ s.length ∧ ((s.take n).takeWhile (fun b => b != 0#8)).length > 600 then "skip"
  else
    match Spec.ztsField n s with
    | .field t rest => s!"OK {pBytes t} rest={rest.length}"
    | .incomplete m => s!"INCOMPLETE {m}"

def pIds (sh ecu app ctx : Option Bytes) : String :=
  s!"sh={pOpt pBytes sh} ecu={pOpt pBytes ecu} app={pOpt pBytes app} ctx={pOpt pBytes ctx}"

/-- C19: the id fields of the message parsed from `bs`, and what the Spec reads at their
    offsets -/
def ids (w : Bool) (bs : Bytes) : String :=
  let model :=
    match dltMessage bs none w with
    | .ok (.item m, _) =>
      "OK " ++ pIds (m.storageHeader.map (·.ecuId)) m.header.ecuId
        (m.extendedHeader.map (·.applicationId)) (m.extendedHeader.map (·.contextId))
    | .ok (_, _) => "OTHER"
    | .error e => pDltError e
  let f := Spec.idFields w bs
  model ++ " @@ spec=" ++ pIds f.storageEcu f.ecu f.app f.ctx

/-- the reference decoder's verdict in the print format of a parse result -/
def pVerdict (n : Nat) : Spec.Verdict → String
  | .item m c => s!"OK rest={n - c} {pParsed (.item m)}"
  | .incomplete => "INCOMPLETE"
  | .reject => "REJECT"

def pEnc (m : Message) : String :=
  if m.asBytesPanics then "PANIC" else s!"{pBytes m.asBytes} blen={m.byteLen}"

/-- coarse outcome class of a parse -/
def pClass : Except DltError (ParsedMessage × Bytes) → String
  | .ok (.item _, _) => "ITEM"
  | .ok (.filteredOut n, _) => s!"FILTERED:{n}"
  | .ok (.invalid, _) => "INVALID"
  | .error (.incomplete _) => "INCOMPLETE"
  | .error .hickup => "HICKUP"
  | .error .unrecoverable => "UNRECOVERABLE"
  | .error .panic => "PANIC"

/-- C01: serialise, append the suffix, parse, compare -/
def rt (m : Message) (sfx : Bytes) : String :=
  if m.asBytesPanics then "PANIC"
  else
    let r := dltMessage (m.asBytes ++ sfx) none m.storageHeader.isSome
    match r with
    | .ok (.item m', rest) =>
      if m' == m && rest == sfx then s!"rt=1 rest={rest.length}"
      else s!"rt=0 {pParseResult r}"
    | _ => s!"rt=0 {pParseResult r}"

/-- use of a returned message: re-serialise, measure, validity (C03) -/
def useMessage (m : Message) : String :=
  let reser := if m.asBytesPanics then "PANIC" else "ok"
  let args := match m.payload with | .verbose as => as | _ => []
  let valid := args.all Argument.valid
  s!"reser={reser} valid={pBool valid}"

def nopanic (w : Bool) (f : Option ProcessedFilter) (bs : Bytes) : String :=
  let r := dltMessage bs f w
  match r with
  | .ok (.item m, _) => s!"{pClass r} {useMessage m}"
  | _ => s!"{pClass r} reser=na valid=na"

def pConsume : PRes (Option Nat) → String
  | .ok none rest => s!"OK none rest={rest.length}"
  | .ok (some c) rest => s!"OK some {c} rest={rest.length}"
  | .incomplete _ => "ERR INCOMPLETE"
  | .error => "ERR HICKUP"
  | .failure => "ERR UNRECOVERABLE"
  | .panic => "PANIC"

def pSkipSh : PRes Nat → String
  | .ok n rest => s!"OK {n} rest={rest.length}"
  | .incomplete _ => "ERR INCOMPLETE"
  | .error => "ERR HICKUP"
  | .failure => "ERR UNRECOVERABLE"
  | .panic => "PANIC"

def pFwd : Option (Nat × Bytes) → String
  | none => "none"
  | some (n, rest) => s!"some {n} rest={rest.length}"

/-- C05: all cut positions of one message; `bad` lists the first offending cuts -/
def hintOk (missing : Nat) : Option Nat → Bool
  | none => true
  | some n => 1 ≤ n && n ≤ missing

def fnv (h : UInt64) (x : Nat) : UInt64 := (h ^^^ UInt64.ofNat x) * 1099511628211

def cutAll (m : Message) (step : Nat := 1) : String := Id.run do
  if m.asBytesPanics then return "PANIC"
  let bs := m.asBytes
  let w := m.storageHeader.isSome
  let n := bs.length
  let mut bad : List String := []
  let mut nbad := 0
  let mut h : UInt64 := 14695981039346656037
  for k in [0:n] do
    if !(step == 1 || k < 64 || k + 64 ≥ n || k % step == 0) then continue
    let pre := bs.take k
    let r := dltMessage pre none w
    let okMsg := match r with
      | .error (.incomplete hint) => hintOk (n - k) hint
      | _ => false
    h := fnv h (match r with | .error (.incomplete (some x)) => x + 1 | .error (.incomplete none) => 0 | _ => 999999)
    let c := dltConsumeMsg pre
    let okCons :=
      if !w then true
      else if k = 0 then (match c with | .ok none _ => true | _ => false)
      else (match c with | .incomplete hint => hintOk (n - k) hint | _ => false)
    if !(okMsg && okCons) then
      nbad := nbad + 1
      if bad.length < 3 then bad := bad ++ [s!"{k}:{pClass r}:{pConsume c}".replace " " "_"]
  return s!"len={n} bad={nbad} {bad} @@ fine={h}"

/-- C16: re-serialising a parsed message is stable -/
def stable (w : Bool) (bs : Bytes) : String :=
  match dltMessage bs none w with
  | .ok (.item m, _) =>
    if m.asBytesPanics then "item PANIC"
    else
      let b2 := m.asBytes
      let lenmatch := b2.length == (if w then 16 else 0) + m.header.overallLength
      if !lenmatch then "item lenmatch=0"
      else
        match dltMessage b2 none w with
        | .ok (.item m2, rest) =>
          let st := m2 == m && rest.isEmpty && !m2.asBytesPanics && m2.asBytes == b2
          s!"item lenmatch=1 stable={pBool st}"
        | _ => "item lenmatch=1 stable=0"
  | _ => "na"

def argLen (a : Argument) : String :=
  let p := if a.asBytesPanics then "PANIC" else "ok"
  s!"len={a.len} le={(a.asBytes .little).length} be={(a.asBytes .big).length} valid={pBool a.valid} {p}"

def messageConfig : P MessageConfig := do
  let version ← bv 8
  let counter ← bv 8
  let e ← endian
  let ecu ← opt bytes
  let sid ← opt (bv 32)
  let tms ← opt (bv 32)
  let p ← payload
  let ext ← opt (do
    let mt ← messageType
    let app ← bytes
    let ctx ← bytes
    pure ({ messageType := mt, appId := app, contextId := ctx } : ExtendedHeaderConfig))
  pure { version := version, counter := counter, endianness := e, ecuId := ecu, sessionId := sid,
         timestamp := tms, payload := p, extendedHeaderInfo := ext }

/-- C15: `Message::new` and the consistency of what it builds -/
def newMsg (c : MessageConfig) (sh : Option StorageHeader) : String :=
  let m := Message.new c sh
  if m.asBytesPanics then "PANIC"
  else
    let pl := m.payload.asBytes m.header.endianness
    let plenOk := m.header.payloadLength.toNat == pl.length
    let noSh := { m with storageHeader := none }
    let blenOk := m.byteLen == noSh.asBytes.length
    let r := dltMessage m.asBytes none m.storageHeader.isSome
    let back := match r with
      | .ok (.item m', rest) => m' == m && rest.isEmpty
      | _ => false
    s!"{pMessage m} plen_ok={pBool plenOk} blen_ok={pBool blenOk} rt={pBool back}"

def addSh (m : Message) (s us : BitVec 32) : String :=
  let m2 := m.addStorageHeader { seconds := s, microseconds := us }
  if m2.asBytesPanics then "PANIC" else pBytes m2.asBytes

/-- C04: where the remainder starts -/
def pCons : Except DltError (ParsedMessage × Bytes) → String
  | .ok (.item _, rest) => s!"OK rest={rest.length} kind=item"
  | .ok (.filteredOut n, rest) => s!"OK rest={rest.length} kind=filtered:{n}"
  | .ok (.invalid, rest) => s!"OK rest={rest.length} kind=invalid"
  | .error .panic => "PANIC"
  | .error _ => "ERR"

/-- the Spec's framing verdict, from the LEN field and HTYP only -/
def pFraming (w : Bool) (bs : Bytes) : String :=
  if w then
    match Spec.storageFraming bs with
    | .incomplete _ => "incomplete"
    | .reject => "reject"
    | .complete skip d =>
      let body := bs.drop (skip + 16)
      s!"complete rest={bs.length - (skip + 16 + d)} fl={d - Spec.allHeadersLen (body.headD 0#8)}"
  else
    match Spec.framing bs with
    | .incomplete _ => "incomplete"
    | .reject => "reject"
    | .complete d => s!"complete rest={bs.length - d} fl={d - Spec.allHeadersLen (bs.headD 0#8)}"

def pConsumeSpec (bs : Bytes) : String :=
  if bs.isEmpty then "none"
  else
    match Spec.framing (bs.drop 16) with
    | .complete d => s!"some {16 + d} rest={bs.length - 16 - d}"
    | _ => "other"

def pCRes : CRes (List Argument) → String
  | .ok as => s!"OK {as.length}" ++ String.join (as.map fun a => " " ++ pArgument a)
  | .err => "ERR"
  | .panic => "PANIC"

def pSpecConstruct : Option (List Argument) → String
  | some as => s!"OK {as.length}" ++ String.join (as.map fun a => " " ++ pArgument a)
  | none => "ERR"

def step : P Step := do
  let t ← tok
  match t.toList with
  | ['s'] => pure .stall
  | 'c' :: ds =>
    match (String.ofList ds).toNat? with
    | some k => pure (.chunk k)
    | none => throw s!"bad step {t}"
  | _ => throw s!"bad step {t}"

def pDelivered : Delivered → String
  | .parsed pm => s!"P {pParsed pm}"
  | .error (.incomplete _) => "E INCOMPLETE"
  | .error .hickup => "E HICKUP"
  | .error .unrecoverable => "E UNRECOVERABLE"
  | .error .panic => "PANIC"

def pDeliveredList (l : List Delivered) : String :=
  String.join (l.map fun d => pDelivered d ++ " ; ") ++ "EOS"

/-- the Spec's delivered sequence with the truncated tail marked `T` (an incomplete last
    message, or fewer bytes than a header at the end): the property allows end-of-stream or an
    error there, so the tail is not compared as a particular error -/
def pSpecStream (w : Bool) (f : Option ProcessedFilter) (bs : Bytes) : String :=
  let pieces := Spec.cut w bs
  let h := (if w then 16 else 0) + 4
  let consumed := pieces.foldl (fun n p => match p with
    | .msg b => n + b.length
    | .badLen => n + h
    | .truncated => bs.length) 0
  let items := pieces.map fun p => match p with
    | .truncated => "T"
    | p => pDelivered (Spec.deliver w f p)
  let items := if consumed < bs.length then items ++ ["T"] else items
  String.join (items.map fun d => d ++ " ; ") ++ "EOS"

def readReq : P (Bool × Option ProcessedFilter × List Step × Bytes) := do
  let w ← bool
  let f ← opt filter
  let n ← nat
  let st ← many step n
  let b ← bytes
  pure (w, f, st, b)

-- statistics (C10) ---------------------------------------------------------------

def bytesLt : Bytes → Bytes → Bool
  | [], [] => false
  | [], _ :: _ => true
  | _ :: _, [] => false
  | a :: as, b :: bs => if a.toNat < b.toNat then true else if a.toNat > b.toNat then false else bytesLt as bs

def insertSorted {α : Type} (x : Bytes × α) : List (Bytes × α) → List (Bytes × α)
  | [] => [x]
  | y :: ys => if bytesLt x.1 y.1 then x :: y :: ys else y :: insertSorted x ys

def sortByKey {α : Type} (l : List (Bytes × α)) : List (Bytes × α) := l.foldl (fun acc x => insertSorted x acc) []

def pDist (d : LevelDistribution) : String :=
  s!"{d.nonLog},{d.logFatal},{d.logError},{d.logWarning},{d.logInfo},{d.logDebug},{d.logVerbose},{d.logInvalid}"

def pIdMap (m : IdMap) : String :=
  s!"{m.length}" ++ String.join ((sortByKey m).map fun e => s!" {pBytes e.1}:{pDist e.2}")

def pInfo (i : StatisticInfo) : String :=
  s!"E {pIdMap i.ecuIds} A {pIdMap i.appIds} C {pIdMap i.contextIds} nv={pBool i.containedNonVerbose}"

def splitLens : List Nat → Bytes → List Bytes
  | [], _ => []
  | n :: ns, bs => bs.take n :: splitLens ns (bs.drop n)

/-- postfix merge expression: a number pushes that part's statistics, `n` pushes
    `StatisticInfo::new()`, `m` pops b then a and pushes `a.merge(b)` -/
def evalTree (parts : List StatisticInfo) : List String → List StatisticInfo → Option StatisticInfo
  | [], [x] => some x
  | [], _ => none
  | "m" :: ts, b :: a :: st => evalTree parts ts (a.merge b :: st)
  | "m" :: _, _ => none
  | "n" :: ts, st => evalTree parts ts ({} :: st)
  | t :: ts, st =>
    match t.toNat? with
    | some i => (match parts[i]? with | some p => evalTree parts ts (p :: st) | none => none)
    | none => none

def dedupKeys (l : List Bytes) : List Bytes :=
  l.foldl (fun acc x => if acc.contains x then acc else acc ++ [x]) []

def specMap (k : Spec.Keying) (sts : List Statistic) : IdMap :=
  let keys := dedupKeys (sts.filterMap (Spec.keyOf k))
  keys.map fun id =>
    (id, { nonLog := Spec.tally k sts id .nonLog, logFatal := Spec.tally k sts id .fatal
           logError := Spec.tally k sts id .error, logWarning := Spec.tally k sts id .warning
           logInfo := Spec.tally k sts id .info, logDebug := Spec.tally k sts id .debug
           logVerbose := Spec.tally k sts id .verbose, logInvalid := Spec.tally k sts id .invalid })

def specInfo (sts : List Statistic) : StatisticInfo :=
  { ecuIds := specMap .ecu sts, appIds := specMap .app sts, contextIds := specMap .ctx sts
    containedNonVerbose := Spec.anyNonVerbose sts }

def stats (w : Bool) (lens : List Nat) (tree : List String) (bs : Bytes) : String :=
  let parts := (splitLens lens bs).map (visit w)
  let model :=
    if parts.any Option.isNone then "ERR"
    else
      match evalTree (parts.map fun p => collectInfo (p.getD [])) tree [] with
      | some i => pInfo i
      | none => "BADTREE"
  -- the property speaks of parts cut at message boundaries: the ends of the parts must be
  -- ends of pieces of the Spec's cut of the whole stream (else nothing is expected: "na")
  let ends := ((Spec.cut w bs).foldl (fun (acc : List Nat × Nat) p =>
      match p with
      | .msg b => (acc.1 ++ [acc.2 + b.length], acc.2 + b.length)
      | .badLen => (acc.1, acc.2 + (if w then 20 else 4))
      | .truncated => acc) ([0], 0)).1
  let partEnds := (lens.foldl (fun (acc : List Nat × Nat) l => (acc.1 ++ [acc.2 + l], acc.2 + l)) ([], 0)).1
  let aligned := partEnds.all fun e => ends.contains e
  let spec :=
    if !aligned then "na"
    else match visit w bs with
      | some sts => pInfo (specInfo sts) ++ s!" n={sts.length}"
      | none => "ERR"
  model ++ " @@ spec=" ++ spec

/-- C09: unfiltered parse vs filtered parse; the Spec decides from the numeric config -/
def filt (w : Bool) (cfg : Spec.FilterConfig) (bs : Bytes) : String :=
  let plain := dltMessage bs none w
  let filtered := dltMessage bs (some (processFilter cfg)) w
  let same := match plain, filtered with
    | .ok (.item m, r), .ok (.item m', r') => pBool (m == m' && r.length == r'.length)
    | .ok (_, r), .ok (_, r') => pBool (r.length == r'.length)
    | _, _ => "na"
  let spec := match plain with
    | .ok (.item m, _) =>
      if Spec.drops cfg m.extendedHeader m.header.ecuId
      then s!"ITEM -> FILTERED:{m.header.payloadLength.toNat} same=1"
      else "ITEM -> ITEM same=1"
    | _ => "na"
  s!"{pClass plain} -> {pClass filtered} same={same} @@ spec={spec}"

/-- C06: junk ++ message ++ suffix in storage mode vs message ++ suffix -/
def junk (j : Bytes) (m : Message) (sfx : Bytes) : String :=
  if m.asBytesPanics then "PANIC"
  else
    let a := dltMessage (j ++ m.asBytes ++ sfx) none true
    let b := dltMessage (m.asBytes ++ sfx) none true
    let same := match a, b with
      | .ok (.item m1, r1), .ok (.item m2, r2) => m1 == m2 && r1 == r2 && m1 == m
      | _, _ => false
    s!"same={pBool same} {pClass a}"

def junkF (f : Option ProcessedFilter) (j : Bytes) (m : Message) (sfx : Bytes) : String :=
  if m.asBytesPanics then "PANIC"
  else
    let a := dltMessage (j ++ m.asBytes ++ sfx) f true
    let b := dltMessage (m.asBytes ++ sfx) f true
    let same := match a, b with
      | .ok (.item m1, r1), .ok (.item m2, r2) => m1 == m2 && r1 == r2 && m1 == m && r1 == sfx
      | .ok (.filteredOut n1, r1), .ok (.filteredOut n2, r2) => n1 == n2 && r1 == r2 && r1 == sfx
      | _, _ => false
    s!"same={pBool same} {pClass a}"

/-- repeated parsing in storage mode -/
def parseLoop : Nat → Bytes → List ParsedMessage
  | 0, _ => []
  | n + 1, bs =>
    match dltMessage bs none true with
    | .ok (res, rest) => res :: parseLoop n rest
    | .error _ => []

def stream (items : List (Bytes × Message)) : String :=
  if items.any (fun x => x.2.asBytesPanics) then "PANIC"
  else
    let bs := (items.map fun x => x.1 ++ x.2.asBytes).flatten
    let got := parseLoop (bs.length + 1) bs
    let ok := got == items.map (fun x => ParsedMessage.item x.2)
    s!"count={got.length} match={pBool ok}"

def pFirst : Option Nat → String
  | none => "none"
  | some n => s!"some {n}"

def dispatch (op : String) (args : List String) : Except String String :=
  match op with
  | "FROMMS" => do let n ← run nat args; pure (pTime (fromMs n))
  | "FROMUS" => do let n ← run nat args; pure (pTime (fromUs n))
  | "REAL" => do
    let a ← run argument args
    let spec := match Spec.realValue a with
      | .nothing => "none"
      | .exactly n => s!"some {n}"
      | .unspecified => "skip"
    pure (pOptNat a.toRealValue ++ " @@ spec=" ++ spec)
  | "HTYP" => do let b ← run (bv 8) args; pure (htyp b)
  | "MSIN" => do let b ← run (bv 8) args; pure (msin b)
  | "TI" => do
    let w ← run (bv 32) args
    let spec := if Spec.tiSupported w.toNat then s!"accept mask={Spec.tiUnusedMask w.toNat}" else "reject"
    pure (ti w ++ " @@ spec=" ++ spec)
  | "ZTS" => do
    let (n, s) ← run (do let n ← nat; let s ← bytes; pure (n, s)) args
    pure (pZts (zts n s) ++ " @@ spec=" ++ pZtsSpec n s)
  | "IDS" => do
    let (w, bs) ← run (do let w ← bool; let b ← bytes; pure (w, b)) args
    pure (ids w bs)
  | "ENC" => do
    let m ← run message args
    pure (pEnc m ++ " @@ spec=" ++ pBytes (Spec.layout m) ++ " wf=" ++ pBool m.wf)
  | "PARSE" => do
    let (w, f, bs) ← run (do let w ← bool; let f ← opt filter; let b ← bytes; pure (w, f, b)) args
    let spec := match f with
      | none => " @@ spec=" ++ pVerdict bs.length (Spec.decode w bs)
      | some _ => ""
    pure (pParseResult (dltMessage bs f w) ++ spec)
  | "RT" => do
    let (m, sfx) ← run (do let m ← message; let s ← bytes; pure (m, s)) args
    pure (rt m sfx ++ " @@ wf=" ++ pBool m.wf)
  | "NOPANIC" => do
    let (w, f, bs) ← run (do let w ← bool; let f ← opt filter; let b ← bytes; pure (w, f, b)) args
    pure (nopanic w f bs)
  | "CONSUME" => do
    let bs ← run bytes args
    pure (pConsume (dltConsumeMsg bs) ++ " @@ spec=" ++ pConsumeSpec bs)
  | "CONS" => do
    let (w, f, bs) ← run (do let w ← bool; let f ← opt filter; let b ← bytes; pure (w, f, b)) args
    pure (pCons (dltMessage bs f w) ++ " @@ spec=" ++ pFraming w bs)
  | "NVA" => do
    let (e, tis, d) ← run (do
      let e ← endian; let n ← nat; let tis ← many typeInfo n; let d ← bytes; pure (e, tis, d)) args
    pure (pCRes (constructArguments e tis d) ++ " @@ spec=" ++ pSpecConstruct (Spec.construct e tis d))
  | "SKIPSH" => do let bs ← run bytes args; pure (pSkipSh (skipStorageHeader bs))
  | "FWD" => do
    let bs ← run bytes args
    -- the index-based Spec search is quadratic on lists: not evaluated on very long inputs
    pure (pFwd (forwardToNextStorageHeader bs) ++ " @@ spec=" ++
      (if bs.length > 20000 then "skip" else
       match Spec.firstPattern bs with | none => "none" | some n => s!"some {n} rest={bs.length - n}"))
  | "JUNK" => do
    let (j, m, sfx) ← run (do let j ← bytes; let m ← message; let s ← bytes; pure (j, m, s)) args
    pure (junk j m sfx)
  | "JUNKF" => do
    let (f, j, m, sfx) ← run (do
      let f ← opt filter; let j ← bytes; let m ← message; let s ← bytes; pure (f, j, m, s)) args
    pure (junkF f j m sfx)
  | "STREAM" => do
    let items ← run (do
      let n ← nat
      many (do let j ← bytes; let m ← message; pure (j, m)) n) args
    pure (stream items)
  | "CUTALL" => do let m ← run message args; pure (cutAll m ++ " @@ wf=" ++ pBool m.wf)
  | "CUTS" => do
    let (step, m) ← run (do let s ← nat; let m ← message; pure (s, m)) args
    pure (cutAll m (max step 1) ++ " @@ wf=" ++ pBool m.wf)
  | "STABLE" => do
    let (w, bs) ← run (do let w ← bool; let b ← bytes; pure (w, b)) args
    pure (stable w bs)
  | "ARGLEN" => do let a ← run argument args; pure (argLen a)
  | "VALID" => do let a ← run argument args; pure s!"valid={pBool a.valid}"
  | "NEW" => do
    let (c, sh) ← run (do let c ← messageConfig; let sh ← opt storageHeader; pure (c, sh)) args
    pure (newMsg c sh)
  | "NEWX" => do
    let (c, sh) ← run (do let c ← messageConfig; let sh ← opt storageHeader; pure (c, sh)) args
    pure (newMsg c sh)
  | "ADDSH" => do
    let (m, s, us) ← run (do let m ← message; let s ← bv 32; let us ← bv 32; pure (m, s, us)) args
    pure (addSh m s us)
  | "READ" => do
    let (w, f, st, bs) ← run readReq args
    pure (pDeliveredList (readAll st w f bs) ++ " @@ spec=" ++ pSpecStream w f bs)
  | "AREAD" => do
    let (w, f, st, bs) ← run readReq args
    pure (pDeliveredList (readAllAsync st w f bs) ++ " @@ spec=" ++ pSpecStream w f bs)
  | "SKIPLVL" => do
    let (mt, l) ← run (do let mt ← messageType; let l ← logLevel; pure (mt, l)) args
    let eh : ExtendedHeader :=
      { verbose := false, argumentCount := 0, messageType := mt, applicationId := [], contextId := [] }
    pure s!"skip={pBool (eh.skipWithLevel l)}"
  | "FILT" => do
    let (w, c, bs) ← run (do let w ← bool; let c ← filterConfig; let b ← bytes; pure (w, c, b)) args
    pure (filt w c bs)
  | "FIBEX" => run FibexOps.fibex args
  | "FIBEXDOC" => run FibexOps.fibexDoc args
  | "STATS" => do
    let (w, lens, tree, bs) ← run (do
      let w ← bool; let k ← nat; let lens ← many nat k; let nt ← nat; let tree ← many tok nt
      let b ← bytes; pure (w, lens, tree, b)) args
    pure (stats w lens tree bs)
  | _ => .error s!"unknown op {op}"

def handleLine (line : String) : String :=
  match (line.trimAscii.toString.splitOn " ").filter (· ≠ "") with
  | [] => "BADREQ empty"
  | op :: args =>
    match dispatch op args with
    | .ok s => s
    | .error e => s!"BADREQ {e}"

end Dlt.Ops
