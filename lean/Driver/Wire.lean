/-
  Wire format of the line protocol: whitespace-separated tokens.
    bytes   x<hex>            option  - | + <value>         bool 0|1
    numbers decimal (bit patterns for signed integers and floats)
  The Rust harness (harness/src/wire.rs) prints and parses the same format.
-/
import DltVerif.Model.Decode
import DltVerif.Model.NonVerbose
import DltVerif.Model.Filter

namespace Dlt.Wire

abbrev P := StateT (List String) (Except String)

def tok : P String := do
  match (← get) with
  | [] => throw "unexpected end of line"
  | t :: ts => set ts; pure t

def peek? : P (Option String) := do
  match (← get) with
  | [] => pure none
  | t :: _ => pure (some t)

def nat : P Nat := do
  let t ← tok
  match t.toNat? with
  | some n => pure n
  | none => throw s!"not a number: {t}"

def int : P Int := do
  let t ← tok
  match t.toInt? with
  | some n => pure n
  | none => throw s!"not an integer: {t}"

def bv (w : Nat) : P (BitVec w) := do
  let n ← nat
  if n < 2 ^ w then pure (BitVec.ofNat w n) else throw s!"number {n} does not fit {w} bits"

def bool : P Bool := do
  match (← tok) with
  | "0" => pure false
  | "1" => pure true
  | t => throw s!"not a bool: {t}"

def hexVal (c : Char) : Option Nat :=
  if '0' ≤ c ∧ c ≤ '9' then some (c.toNat - '0'.toNat)
  else if 'a' ≤ c ∧ c ≤ 'f' then some (c.toNat - 'a'.toNat + 10)
  else if 'A' ≤ c ∧ c ≤ 'F' then some (c.toNat - 'A'.toNat + 10)
  else none

def hexDecode : List Char → Option Bytes
  | [] => some []
  | [_] => none
  | a :: b :: r =>
    match hexVal a, hexVal b, hexDecode r with
    | some x, some y, some t => some (BitVec.ofNat 8 (16 * x + y) :: t)
    | _, _, _ => none

def bytes : P Bytes := do
  let t ← tok
  match t.toList with
  | 'x' :: cs =>
    match hexDecode cs with
    | some b => pure b
    | none => throw s!"bad hex: {t}"
  | _ => throw s!"not a byte string: {t}"

def opt {α : Type} (p : P α) : P (Option α) := do
  match (← tok) with
  | "-" => pure none
  | "+" => some <$> p
  | t => throw s!"not an option marker: {t}"

def many {α : Type} (p : P α) : Nat → P (List α)
  | 0 => pure []
  | n + 1 => do
    let x ← p
    let xs ← many p n
    pure (x :: xs)

def endian : P Endian := do
  match (← tok) with
  | "L" => pure .little
  | "B" => pure .big
  | t => throw s!"not an endianness: {t}"

def logLevel : P LogLevel := do
  let i ← nat
  let n ← bv 8
  match i with
  | 0 => pure .fatal | 1 => pure .error | 2 => pure .warn | 3 => pure .info
  | 4 => pure .debug | 5 => pure .verbose | 6 => pure (.invalid n)
  | _ => throw "bad log level"

def messageType : P MessageType := do
  let k ← nat
  let a ← nat
  let b ← bv 8
  match k with
  | 0 =>
    match a with
    | 0 => pure (.log .fatal) | 1 => pure (.log .error) | 2 => pure (.log .warn)
    | 3 => pure (.log .info) | 4 => pure (.log .debug) | 5 => pure (.log .verbose)
    | 6 => pure (.log (.invalid b))
    | _ => throw "bad log level"
  | 1 =>
    match a with
    | 0 => pure (.applicationTrace .variable) | 1 => pure (.applicationTrace .functionIn)
    | 2 => pure (.applicationTrace .functionOut) | 3 => pure (.applicationTrace .state)
    | 4 => pure (.applicationTrace .vfb) | 5 => pure (.applicationTrace (.invalid b))
    | _ => throw "bad app trace type"
  | 2 =>
    match a with
    | 0 => pure (.networkTrace .ipc) | 1 => pure (.networkTrace .can)
    | 2 => pure (.networkTrace .flexray) | 3 => pure (.networkTrace .most)
    | 4 => pure (.networkTrace .ethernet) | 5 => pure (.networkTrace .someip)
    | 6 => pure (.networkTrace .invalid) | 7 => pure (.networkTrace (.userDefined b))
    | _ => throw "bad nw trace type"
  | 3 =>
    match a with
    | 0 => pure (.control .request) | 1 => pure (.control .response)
    | 2 => pure (.control (.unknown b))
    | _ => throw "bad control type"
  | 4 =>
    if a < 256 then pure (.unknown (BitVec.ofNat 8 a) b) else throw "bad mstp"
  | _ => throw "bad message type"

def controlType : P ControlType := do
  let a ← nat
  let b ← bv 8
  match a with
  | 0 => pure .request | 1 => pure .response | 2 => pure (.unknown b)
  | _ => throw "bad control type"

def typeInfo : P TypeInfo := do
  let k ← nat
  let w ← nat
  let ci ← nat
  let cn ← bv 8
  let vari ← bool
  let trai ← bool
  let tl : P TypeLength := match w with
    | 8 => pure .b8 | 16 => pure .b16 | 32 => pure .b32 | 64 => pure .b64 | 128 => pure .b128
    | _ => throw "bad type length"
  let fw : P FloatWidth := match w with
    | 32 => pure .w32 | 64 => pure .w64
    | _ => throw "bad float width"
  let kind ← match k with
    | 0 => pure TypeInfoKind.bool
    | 1 => TypeInfoKind.signed <$> tl
    | 2 => TypeInfoKind.signedFixedPoint <$> fw
    | 3 => TypeInfoKind.unsigned <$> tl
    | 4 => TypeInfoKind.unsignedFixedPoint <$> fw
    | 5 => TypeInfoKind.float <$> fw
    | 6 => pure TypeInfoKind.stringType
    | 7 => pure TypeInfoKind.raw
    | _ => throw "bad kind"
  let coding ← match ci with
    | 0 => pure StringCoding.ascii
    | 1 => pure StringCoding.utf8
    | 2 => pure (StringCoding.reserved cn)
    | _ => throw "bad coding"
  pure { kind := kind, coding := coding, hasVariableInfo := vari, hasTraceInfo := trai }

def fixedPoint : P FixedPoint := do
  let q ← bv 32
  let w ← nat
  match w with
  | 32 => do let v ← bv 32; pure { quantization := q, offset := .i32 v }
  | 64 => do let v ← bv 64; pure { quantization := q, offset := .i64 v }
  | _ => throw "bad fixed point width"

def value : P Value := do
  let k ← nat
  match k with
  | 0 => Value.bool <$> bv 8
  | 1 => Value.u8 <$> bv 8
  | 2 => Value.u16 <$> bv 16
  | 3 => Value.u32 <$> bv 32
  | 4 => Value.u64 <$> bv 64
  | 5 => Value.u128 <$> bv 128
  | 6 => Value.i8 <$> bv 8
  | 7 => Value.i16 <$> bv 16
  | 8 => Value.i32 <$> bv 32
  | 9 => Value.i64 <$> bv 64
  | 10 => Value.i128 <$> bv 128
  | 11 => Value.f32 <$> bv 32
  | 12 => Value.f64 <$> bv 64
  | 13 => Value.stringVal <$> bytes
  | 14 => Value.raw <$> bytes
  | _ => throw "bad value kind"

def argument : P Argument := do
  let ti ← typeInfo
  let name ← opt bytes
  let unit ← opt bytes
  let fp ← opt fixedPoint
  let v ← value
  pure { typeInfo := ti, name := name, unit := unit, fixedPoint := fp, value := v }

def payload : P PayloadContent := do
  match (← tok) with
  | "V" => do let n ← nat; PayloadContent.verbose <$> many argument n
  | "N" => do let id ← bv 32; let b ← bytes; pure (.nonVerbose id b)
  | "C" => do let t ← controlType; let b ← bytes; pure (.controlMsg t b)
  | "T" => do let n ← nat; PayloadContent.networkTrace <$> many bytes n
  | t => throw s!"bad payload tag {t}"

def storageHeader : P StorageHeader := do
  let s ← bv 32
  let us ← bv 32
  let ecu ← bytes
  pure { timestamp := { seconds := s, microseconds := us }, ecuId := ecu }

def standardHeader : P StandardHeader := do
  let version ← bv 8
  let e ← endian
  let hasExt ← bool
  let mcnt ← bv 8
  let ecu ← opt bytes
  let sid ← opt (bv 32)
  let tms ← opt (bv 32)
  let plen ← bv 16
  pure { version := version, endianness := e, hasExtendedHeader := hasExt, messageCounter := mcnt,
         ecuId := ecu, sessionId := sid, timestamp := tms, payloadLength := plen }

def extendedHeader : P ExtendedHeader := do
  let verbose ← bool
  let noar ← bv 8
  let mt ← messageType
  let app ← bytes
  let ctx ← bytes
  pure { verbose := verbose, argumentCount := noar, messageType := mt, applicationId := app,
         contextId := ctx }

def message : P Message := do
  let sh ← opt storageHeader
  let h ← standardHeader
  let eh ← opt extendedHeader
  let p ← payload
  pure { storageHeader := sh, header := h, extendedHeader := eh, payload := p }

def idList : P (List Bytes) := do
  let n ← nat
  many bytes n

/-- numeric `DltFilterConfig` -/
def filterConfig : P Spec.FilterConfig := do
  let minLevel ← opt (bv 8)
  let apps ← opt idList
  let ecus ← opt idList
  let ctxs ← opt idList
  let ac ← int
  let cc ← int
  pure { minLogLevel := minLevel, appIds := apps, ecuIds := ecus, contextIds := ctxs
         appIdCount := ac, contextIdCount := cc }

/-- converted as `ProcessedDltFilterConfig::from` does -/
def filter : P ProcessedFilter := processFilter <$> filterConfig

-- printing ----------------------------------------------------------------

def hexDigit (n : Nat) : Char :=
  if n < 10 then Char.ofNat ('0'.toNat + n) else Char.ofNat ('a'.toNat + n - 10)

def hexChars : Bytes → List Char → List Char
  | [], acc => acc
  | b :: bs, acc => hexDigit (b.toNat / 16) :: hexDigit (b.toNat % 16) :: hexChars bs acc

def pBytes (b : Bytes) : String := String.ofList ('x' :: hexChars b [])

def pBool (b : Bool) : String := if b then "1" else "0"

def pOpt {α : Type} (f : α → String) : Option α → String
  | none => "-"
  | some v => "+ " ++ f v

def pEndian : Endian → String
  | .little => "L"
  | .big => "B"

def pMessageType : MessageType → String
  | .log .fatal => "0 0 0" | .log .error => "0 1 0" | .log .warn => "0 2 0"
  | .log .info => "0 3 0" | .log .debug => "0 4 0" | .log .verbose => "0 5 0"
  | .log (.invalid n) => s!"0 6 {n.toNat}"
  | .applicationTrace .variable => "1 0 0" | .applicationTrace .functionIn => "1 1 0"
  | .applicationTrace .functionOut => "1 2 0" | .applicationTrace .state => "1 3 0"
  | .applicationTrace .vfb => "1 4 0" | .applicationTrace (.invalid n) => s!"1 5 {n.toNat}"
  | .networkTrace .ipc => "2 0 0" | .networkTrace .can => "2 1 0"
  | .networkTrace .flexray => "2 2 0" | .networkTrace .most => "2 3 0"
  | .networkTrace .ethernet => "2 4 0" | .networkTrace .someip => "2 5 0"
  | .networkTrace .invalid => "2 6 0" | .networkTrace (.userDefined n) => s!"2 7 {n.toNat}"
  | .control .request => "3 0 0" | .control .response => "3 1 0"
  | .control (.unknown n) => s!"3 2 {n.toNat}"
  | .unknown a b => s!"4 {a.toNat} {b.toNat}"

def pControlType : ControlType → String
  | .request => "0 0" | .response => "1 0" | .unknown n => s!"2 {n.toNat}"

def pTypeInfo (t : TypeInfo) : String :=
  let (k, w) := match t.kind with
    | .bool => (0, 0)
    | .signed l => (1, 8 * l.bytes)
    | .signedFixedPoint w => (2, 8 * w.bytes)
    | .unsigned l => (3, 8 * l.bytes)
    | .unsignedFixedPoint w => (4, 8 * w.bytes)
    | .float w => (5, 8 * w.bytes)
    | .stringType => (6, 0)
    | .raw => (7, 0)
  let c := match t.coding with
    | .ascii => "0 0" | .utf8 => "1 0" | .reserved v => s!"2 {v.toNat}"
  s!"{k} {w} {c} {pBool t.hasVariableInfo} {pBool t.hasTraceInfo}"

def pFixedPoint (fp : FixedPoint) : String :=
  match fp.offset with
  | .i32 v => s!"{fp.quantization.toNat} 32 {v.toNat}"
  | .i64 v => s!"{fp.quantization.toNat} 64 {v.toNat}"

def pValue : Value → String
  | .bool v => s!"0 {v.toNat}"
  | .u8 v => s!"1 {v.toNat}" | .u16 v => s!"2 {v.toNat}" | .u32 v => s!"3 {v.toNat}"
  | .u64 v => s!"4 {v.toNat}" | .u128 v => s!"5 {v.toNat}"
  | .i8 v => s!"6 {v.toNat}" | .i16 v => s!"7 {v.toNat}" | .i32 v => s!"8 {v.toNat}"
  | .i64 v => s!"9 {v.toNat}" | .i128 v => s!"10 {v.toNat}"
  | .f32 v => s!"11 {v.toNat}" | .f64 v => s!"12 {v.toNat}"
  | .stringVal s => s!"13 {pBytes s}"
  | .raw b => s!"14 {pBytes b}"

def pArgument (a : Argument) : String :=
  s!"{pTypeInfo a.typeInfo} {pOpt pBytes a.name} {pOpt pBytes a.unit} {pOpt pFixedPoint a.fixedPoint} {pValue a.value}"

def pPayload : PayloadContent → String
  | .verbose args => s!"V {args.length}" ++ String.join (args.map fun a => " " ++ pArgument a)
  | .nonVerbose id b => s!"N {id.toNat} {pBytes b}"
  | .controlMsg t b => s!"C {pControlType t} {pBytes b}"
  | .networkTrace ss => s!"T {ss.length}" ++ String.join (ss.map fun s => " " ++ pBytes s)

def pStorageHeader (h : StorageHeader) : String :=
  s!"{h.timestamp.seconds.toNat} {h.timestamp.microseconds.toNat} {pBytes h.ecuId}"

def pStandardHeader (h : StandardHeader) : String :=
  s!"{h.version.toNat} {pEndian h.endianness} {pBool h.hasExtendedHeader} {h.messageCounter.toNat} {pOpt pBytes h.ecuId} {pOpt (fun (v : BitVec 32) => toString v.toNat) h.sessionId} {pOpt (fun (v : BitVec 32) => toString v.toNat) h.timestamp} {h.payloadLength.toNat}"

def pExtendedHeader (h : ExtendedHeader) : String :=
  s!"{pBool h.verbose} {h.argumentCount.toNat} {pMessageType h.messageType} {pBytes h.applicationId} {pBytes h.contextId}"

def pMessage (m : Message) : String :=
  s!"{pOpt pStorageHeader m.storageHeader} {pStandardHeader m.header} {pOpt pExtendedHeader m.extendedHeader} {pPayload m.payload}"

def pNeeded : Option Nat → String
  | none => "?"
  | some n => toString n

def pDltError : DltError → String
  | .incomplete n => s!"ERR INCOMPLETE {pNeeded n}"
  | .hickup => "ERR HICKUP"
  | .unrecoverable => "ERR UNRECOVERABLE"
  | .panic => "PANIC"

def pParsed : ParsedMessage → String
  | .item m => s!"ITEM {pMessage m}"
  | .filteredOut n => s!"FILTERED {n}"
  | .invalid => "INVALID"

def pParseResult : Except DltError (ParsedMessage × Bytes) → String
  | .ok (pm, rest) => s!"OK rest={rest.length} {pParsed pm}"
  | .error e => pDltError e

end Dlt.Wire
